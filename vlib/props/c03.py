"""C03 — realizability verdict and synthesized initial condition per qinit form.

A. `gr1._make_init` at family level: EnvInit / SysInit / Win are rigid tables; the
   exported `init['impl']` must equal the documented formula for every triple of
   predicates (one z3 query per form x causality mode x state).
B. `gr1.is_realizable` per instance (the verdict is a Python bool): for every
   triple of predicates over two bits (exhaustive) and seeded integer
   predicates, the expected verdict is the validity of the documented quantified
   formula, decided by z3 (ForAll/Exists over the bits that refine the variables).
C. verdict true and region non-empty => both constructors succeed (seeded concrete
   games, 4 forms x 4 modes), and the result passes the closed-loop obligations
   of C02/C05 by enumeration.
"""
import contextlib
import io
import itertools
import random
import time

from vlib import core

PID = 'C03'
FILES = ['omega/games/gr1.py']
FUNCS = ['gr1.is_realizable', 'gr1._make_init', 'gr1.make_streett_transducer', 'gr1.make_rabin_transducer']
QINITS = ['\\A \\A', '\\E \\E', '\\A \\E', '\\E \\A']
SOLVER_MS = 300000


def _decls(kind):
    if kind == 'bool':
        return dict(x='bool'), dict(y='bool')
    if kind == 'int':
        return dict(x=(0, 2)), dict(y=(-1, 1))
    if kind == 'neg':
        return dict(x=(-2, -1)), dict(y='bool')
    if kind == 'const':
        # as 'bool', plus a rigid constant k that the predicates may mention (verdict = validity for every k)
        return dict(x='bool'), dict(y='bool')
    raise ValueError(kind)


def _aut(kind, tables=True):
    import omega.symbolic.temporal as trl
    from vlib import family
    env, sys_ = _decls(kind)
    aut = trl.Automaton()
    aut.declare_variables(m=(0, 1), **env, **sys_)
    if kind == 'const':
        aut.declare_constants(k='bool')
    aut.varlist = dict(env=list(env), sys=list(sys_))
    aut.prime_varlists()
    return aut, list(env), list(sys_)


# ------------------------------------------------------------------ A

def make_init_family(kind, qinit, plus_one, moore=True):
    import z3
    import omega.games.gr1 as gr1
    from vlib import bdd2smt, family, link
    aut, env, sys_ = _aut(kind)
    state = env + sys_
    params = []
    shared = qinit in ('\\A \\A', '\\E \\E')
    ei = family.table(aut, 'ei', state if shared else env, params)
    si = family.table(aut, 'si', state, params)
    wi = family.table(aut, 'w', state, params)
    aut.declare_constants(**{p: 'bool' for p in params})
    aut.init['env'] = ei
    aut.init['sys'] = si
    win = aut.add_expr(wi)
    internal = aut.add_expr('m = 0')
    aut.qinit = qinit
    aut.plus_one = plus_one
    aut.moore = moore
    gr1._make_init(internal, win, aut)
    exp = bdd2smt.Exporter(aut.bdd)
    bits = exp.bits
    eEI, eSI, eW = exp.export(aut.init['env']), exp.export(aut.init['sys']), exp.export(win)
    eInit = exp.export(aut.init['impl'])
    mem0 = link.int_of('m', aut.vars['m'], bits) == 0
    if plus_one:
        form = z3.And(eSI, z3.Implies(eEI, eW))
    else:
        form = z3.Implies(eEI, z3.And(eSI, eW))
    ebits = [bits(b) for b in family.state_bits(aut, env)]
    if qinit == '\\A \\A':
        want = mem0
    elif qinit == '\\E \\E':
        want = z3.And(eW, eSI, mem0)
    elif qinit == '\\A \\E':
        want = z3.And(form, mem0)
    else:
        alls = [z3.substitute(form, *zip(ebits, [z3.BoolVal(v) for v in vs]))
                for vs in itertools.product([False, True], repeat=len(ebits))]
        want = z3.And(z3.And(alls), mem0)
    sol = z3.Solver()
    sol.set('timeout', SOLVER_MS)
    sol.add(eInit != want)
    t1 = time.time()
    r = str(sol.check())
    dt = time.time() - t1
    name = f'make_init {kind} qinit={qinit} plus_one={plus_one} moore={moore}'
    sample = dict(kind=kind, qinit=qinit, plus_one=plus_one, constants=len(params),
                  predicates=f'2^{len(params)} triples (EnvInit, SysInit, Win)')
    if r == 'unsat':
        return [core.res(name, 'holds', queries={r: 1}, solver_s=dt, sample=sample, nontrivial=True, functions=FUNCS)]
    if r != 'sat':
        return [core.res(name, 'inconclusive', queries={r: 1}, solver_s=dt, detail=f'solver answered {r}', sample=sample)]
    m = sol.model()
    vals = family.model_params(m, params, bits)
    st = {}
    for n in state + ['m']:
        d = aut.vars[n]
        a = {b: z3.is_true(m.eval(bits(b), model_completion=True)) for b in link.bits_of(n, d)}
        st[n] = link.bits_to_value(n, d, a)
    ok, why = replay_make_init(kind, qinit, plus_one, vals, st, moore)
    if ok:
        return [core.res(name, 'violation', queries={r: 1}, solver_s=dt, sample=sample, nontrivial=True,
                         functions=FUNCS, signature=f'make_init:{qinit}:{"plus_one" if plus_one else "stepwise"}',
                         detail=why, cex=dict(kind='make_init', decl=kind, qinit=qinit, plus_one=plus_one, moore=moore,
                                              values=vals, state=st))]
    return [core.res(name, 'inconclusive', queries={r: 1}, solver_s=dt, sample=sample,
                     detail='counterexample did not reproduce: ' + why)]


def replay_make_init(kind, qinit, plus_one, vals, st, moore=True):
    """Concrete predicates; documented formula evaluated by enumeration."""
    import omega.games.gr1 as gr1
    from vlib import family, link
    aut, env, sys_ = _aut(kind)
    state = env + sys_
    params = []
    shared = qinit in ('\\A \\A', '\\E \\E')
    ei = family.table(aut, 'ei', state if shared else env, params)
    si = family.table(aut, 'si', state, params)
    wi = family.table(aut, 'w', state, params)
    aut.declare_constants(**{p: 'bool' for p in params})
    vals = {p: bool(vals[p]) for p in params}
    EI = aut.let(vals, aut.add_expr(ei))
    SI = aut.let(vals, aut.add_expr(si))
    W = aut.let(vals, aut.add_expr(wi))
    aut.init['env'], aut.init['sys'] = EI, SI
    aut.qinit, aut.plus_one, aut.moore = qinit, plus_one, moore
    try:
        gr1._make_init(aut.add_expr('m = 0'), W, aut)
    except AssertionError as e:
        return False, f'_make_init refused: {e}'

    def tr(u, a):
        sup = aut.support(u)
        d = {k: v for k, v in a.items() if k in sup}
        r = aut.let(d, u) if d else u
        return r == aut.true

    def rng(n):
        d = aut.vars[n]
        if d['type'] == 'bool':
            return [False, True]
        lo, hi = link.rep_range(d)
        return range(lo, hi + 1)

    def form(a):
        if plus_one:
            return tr(SI, a) and ((not tr(EI, a)) or tr(W, a))
        return (not tr(EI, a)) or (tr(SI, a) and tr(W, a))
    a = {k: st[k] for k in state + ['m']}
    got = tr(aut.init['impl'], a)
    m0 = a['m'] == 0
    if qinit == '\\A \\A':
        want = m0
    elif qinit == '\\E \\E':
        want = tr(W, a) and tr(SI, a) and m0
    elif qinit == '\\A \\E':
        want = form(a) and m0
    else:
        want = m0 and all(form(dict(a, **dict(zip(env, xs)))) for xs in itertools.product(*[rng(n) for n in env]))
    return got != want, f'init[impl] at {a} is {got}, documented formula gives {want} (qinit {qinit}, plus_one={plus_one})'


# ------------------------------------------------------------------ B

def _expected_verdict(z3, qinit, plus_one, eEI, eSI, eW, ebits, sbits):
    if plus_one:
        form = z3.And(eSI, z3.Implies(eEI, eW))
    else:
        form = z3.Implies(eEI, z3.And(eSI, eW))

    def Q(kind, vs, body):
        if not vs:
            return body
        return z3.ForAll(vs, body) if kind == 'A' else z3.Exists(vs, body)
    if qinit == '\\A \\A':
        f = Q('A', ebits + sbits, z3.Implies(eEI, eW))
    elif qinit == '\\E \\E':
        f = Q('E', ebits + sbits, z3.And(eSI, eW))
    elif qinit == '\\A \\E':
        f = Q('A', ebits, Q('E', sbits, form))
    else:
        f = Q('E', sbits, Q('A', ebits, form))
    sol = z3.Solver()
    sol.set('timeout', 60000)
    sol.add(z3.Not(f))
    r = str(sol.check())
    if r == 'unsat':
        return True
    if r == 'sat':
        return False
    return None


def verdict_instances(kind, qinit, plus_one, seed, n):
    """is_realizable on concrete predicate triples vs z3 validity of the documented formula."""
    import z3
    import omega.games.gr1 as gr1
    from vlib import bdd2smt, family, link
    rnd = random.Random(seed)
    aut, env, sys_ = _aut(kind)
    state = env + sys_
    aut.qinit, aut.plus_one, aut.moore = qinit, plus_one, True
    exp = bdd2smt.Exporter(aut.bdd)
    bits = exp.bits
    ebits = [bits(b) for b in family.state_bits(aut, env)]
    sbits = [bits(b) for b in family.state_bits(aut, sys_)]

    def cells(ids):
        return list(itertools.product(*[family._values(aut, i) for i in ids]))

    def pred(ids, mask):
        cs = cells(ids)
        terms = [' /\\ '.join(family._cell(aut, i, v) for i, v in zip(ids, vals))
                 for k, vals in enumerate(cs) if (mask >> k) & 1]
        return aut.add_expr(' \\/ '.join(f'({t})' for t in terms)) if terms else aut.false
    shared = qinit in ('\\A \\A', '\\E \\E')
    rigid = ['k'] if kind == 'const' else []
    ei_ids = (state if shared else env) + rigid
    state = state + rigid          # identifiers the predicates SysInit and Win may mention
    n_ei, n_st = len(cells(ei_ids)), len(cells(state))
    exhaustive = kind == 'bool'
    if exhaustive:
        triples = itertools.product(range(2 ** n_ei), range(2 ** n_st), range(2 ** n_st))
    else:
        triples = ((rnd.getrandbits(n_ei), rnd.getrandbits(n_st) | rnd.getrandbits(n_st), rnd.getrandbits(n_st))
                   for _ in range(n))
    out_q = {}
    count = 0
    nontriv = set()
    t1 = time.time()
    viol = []
    inconc = []
    cache = {}

    def get(ids, mask):
        k = (tuple(ids), mask)
        if k not in cache:
            u = pred(ids, mask)
            cache[k] = (u, exp.export(u))
        return cache[k]
    for a, b, c in triples:
        if qinit == '\\A \\A':
            b = 2 ** n_st - 1            # the form requires SysInit = TRUE
        if qinit == '\\E \\E':
            a = 2 ** n_ei - 1            # the form requires EnvInit = TRUE
        key = (a, b, c)
        if key in nontriv:
            continue
        EI, eEI = get(ei_ids, a)
        SI, eSI = get(state, b)
        W, eW = get(state, c)
        aut.init['env'], aut.init['sys'] = EI, SI
        with contextlib.redirect_stdout(io.StringIO()):
            got = gr1.is_realizable(W, aut)
        want = _expected_verdict(z3, qinit, plus_one, eEI, eSI, eW, ebits, sbits)
        count += 1
        nontriv.add(key)
        out_q[str(want)] = out_q.get(str(want), 0) + 1
        if want is None:
            inconc.append(key)
        elif bool(got) != want:
            viol.append((key, got, want))
    dt = time.time() - t1
    name = f'verdict {kind} qinit={qinit} plus_one={plus_one}'
    sample = dict(kind=kind, qinit=qinit, plus_one=plus_one, triples=count, exhaustive=exhaustive,
                  expected_true=out_q.get('True', 0), expected_false=out_q.get('False', 0))
    q = {'unsat': out_q.get('True', 0), 'sat': out_q.get('False', 0), 'unknown': out_q.get('None', 0)}
    if viol:
        (a, b, c), got, want = viol[0]
        return [core.res(name, 'violation', queries=q, solver_s=dt, sample=sample, nontrivial=True, functions=FUNCS,
                         signature=f'verdict:{qinit}:{"plus_one" if plus_one else "stepwise"}',
                         detail=f'is_realizable returns {got} but the documented formula is '
                                f'{"valid" if want else "not valid"} for EnvInit/SysInit/Win truth tables '
                                f'{a:b}/{b:b}/{c:b} ({len(viol)} of {count} triples differ)',
                         cex=dict(kind='verdict', decl=kind, qinit=qinit, plus_one=plus_one, masks=[a, b, c]))]
    if inconc:
        return [core.res(name, 'inconclusive', queries=q, solver_s=dt, sample=sample, detail='z3 unknown on a closed formula')]
    return [core.res(name, 'holds', queries=q, solver_s=dt, sample=sample,
                     nontrivial=out_q.get('True', 0) > 0 and out_q.get('False', 0) > 0, functions=FUNCS,
                     extra=dict(evaluations=count))]


def replay_verdict(c):
    """Enumeration instead of z3."""
    import omega.games.gr1 as gr1
    from vlib import family, link
    kind, qinit, plus_one = c['decl'], c['qinit'], c['plus_one']
    aut, env, sys_ = _aut(kind)
    state = env + sys_
    aut.qinit, aut.plus_one, aut.moore = qinit, plus_one, True
    shared = qinit in ('\\A \\A', '\\E \\E')
    rigid = ['k'] if kind == 'const' else []
    ei_ids = (state if shared else env) + rigid
    state = state + rigid

    def cells(ids):
        return list(itertools.product(*[family._values(aut, i) for i in ids]))

    def table(ids, mask):
        return {vals: bool((mask >> k) & 1) for k, vals in enumerate(cells(ids))}

    def bdd(ids, mask):
        terms = [' /\\ '.join(family._cell(aut, i, v) for i, v in zip(ids, vals))
                 for vals, t in table(ids, mask).items() if t]
        return aut.add_expr(' \\/ '.join(f'({t})' for t in terms)) if terms else aut.false
    a, b, cmask = c['masks']
    aut.init['env'], aut.init['sys'] = bdd(ei_ids, a), bdd(state, b)
    with contextlib.redirect_stdout(io.StringIO()):
        got = gr1.is_realizable(bdd(state, cmask), aut)
    TE, TS, TW = table(ei_ids, a), table(state, b), table(state, cmask)
    XS, YS = cells(env), cells(sys_)
    KS = cells(rigid)            # [()] without a rigid constant

    def want_for(k):
        def form(x, y):
            e = TE[x + y + k] if shared else TE[x + k]
            if plus_one:
                return TS[x + y + k] and ((not e) or TW[x + y + k])
            return (not e) or (TS[x + y + k] and TW[x + y + k])
        if qinit == '\\A \\A':
            return all((not TE[x + y + k]) or TW[x + y + k] for x in XS for y in YS)
        if qinit == '\\E \\E':
            return any(TS[x + y + k] and TW[x + y + k] for x in XS for y in YS)
        if qinit == '\\A \\E':
            return all(any(form(x, y) for y in YS) for x in XS)
        return any(all(form(x, y) for x in XS) for y in YS)
    want = all(want_for(k) for k in KS)      # validity: for every value of the rigid constant
    return bool(got) != want, f'is_realizable={got}, enumeration of the documented formula={want}'


# ------------------------------------------------------------------ C

def construct_instances(shape, seed, n):
    """Seeded concrete games x 4 qinit forms x 4 modes x {Streett, Rabin}: verdict true and
    region non-empty => construction succeeds and passes the closed-loop obligations."""
    import omega.games.gr1 as gr1
    from vlib import family, trans
    from vlib.props import c01
    rnd = random.Random(seed)
    out = []
    for it in range(n):
        qinit = QINITS[it % 4]
        moore, plus_one = c01.MODES[(it // 4) % 4]
        objective = 'streett' if (it // 16) % 2 == 0 else 'rabin'
        aut, params = family.build(shape, moore, plus_one, qinit=qinit)
        dens = rnd.choice([0.5, 0.7, 0.9])
        vals = {p: rnd.random() < dens for p in params}
        c01.concrete_member(aut, vals)
        env, sys_ = list(aut.varlist['env']), list(aut.varlist['sys'])
        state = env + sys_
        shared = qinit in ('\\A \\A', '\\E \\E')

        def rand_pred(ids, p):
            cs = list(itertools.product(*[family._values(aut, i) for i in ids]))
            terms = [' /\\ '.join(family._cell(aut, i, v) for i, v in zip(ids, vs)) for vs in cs if rnd.random() < p]
            return ' \\/ '.join(f'({t})' for t in terms) if terms else 'FALSE'
        ei = 'TRUE' if qinit == '\\E \\E' else rand_pred(state if shared else env, 0.5)
        si = 'TRUE' if qinit == '\\A \\A' else rand_pred(state, 0.7)
        aut.init['env'], aut.init['sys'] = ei, si
        name = f'construct {shape}#{seed}.{it} {objective} qinit={qinit} moore={moore} plus_one={plus_one}'
        sample = dict(shape=shape, member=''.join('1' if vals[p] else '0' for p in params), env_init=ei,
                      sys_init=si, qinit=qinit, moore=moore, plus_one=plus_one, objective=objective)
        case = dict(kind='construct', shape=shape, values=vals, env_init=ei, sys_init=si, qinit=qinit,
                    moore=moore, plus_one=plus_one, objective=objective)
        res_ = _construct_case(case)
        status, detail, sig, nontriv = res_
        out.append(core.res(name, status, detail=detail, signature=sig, sample=sample, nontrivial=nontriv,
                            functions=FUNCS, cex=case if status == 'violation' else None))
    return out


def _construct_case(c):
    import omega.games.gr1 as gr1
    from vlib import family, trans
    from vlib.props import c01
    aut, params = family.build(c['shape'], c['moore'], c['plus_one'], qinit=c['qinit'])
    c01.concrete_member(aut, {p: bool(c['values'][p]) for p in params})
    aut.init['env'], aut.init['sys'] = c['env_init'], c['sys_init']
    objective = c['objective']
    with contextlib.redirect_stdout(io.StringIO()):
        if objective == 'streett':
            z, yij, xijk = gr1.solve_streett_game(aut)
        else:
            zk, yki, xkijr = gr1.solve_rabin_game(aut)
            z = zk[-1]
        verdict = gr1.is_realizable(z, aut)
    if not verdict or z == aut.false:
        # refusal expected: the constructor must raise
        with contextlib.redirect_stdout(io.StringIO()):
            try:
                if objective == 'streett':
                    gr1.make_streett_transducer(z, yij, xijk, aut)
                else:
                    gr1.make_rabin_transducer(zk, yki, xkijr, aut)
            except AssertionError:
                return 'holds', '', '', False
        if not verdict:
            return ('violation', f'verdict is False but the {objective} constructor did not refuse',
                    'construct:no-refusal', True)
        return 'holds', '', '', False
    with contextlib.redirect_stdout(io.StringIO()):
        try:
            if objective == 'streett':
                gr1.make_streett_transducer(z, yij, xijk, aut)
                mem, mem_init = ['_goal'], {'_goal': 0}
            else:
                gr1.make_rabin_transducer(zk, yki, xkijr, aut)
                mem, mem_init = ['_hold', '_goal'], {'_hold': len(aut.win['<>[]']), '_goal': 0}
        except Exception as e:  # noqa
            import traceback
            where = traceback.extract_tb(e.__traceback__)[-1]
            return ('violation', f'verdict True, region non-empty, but the {objective} constructor raised '
                    f'{type(e).__name__} at {where.name}:{where.line}', f'construct:{type(e).__name__}@{where.name}', True)
    found = trans.check_concrete(aut, z, objective, mem, mem_init)
    if found:
        ob, why = found[0]
        return ('violation', f'{objective} implementation for qinit {c["qinit"]}: {ob}: {why}',
                f'{objective}-impl:{ob}:qinit', True)
    return 'holds', '', '', True


def replay(payload):
    c = payload['cex']
    if c['kind'] == 'make_init':
        return replay_make_init(c['decl'], c['qinit'], c['plus_one'], c['values'], c['state'], c.get('moore', True))
    if c['kind'] == 'verdict':
        return replay_verdict(c)
    status, detail, sig, _ = _construct_case(c)
    return status == 'violation', detail or 'holds'


def run(tier, seed, t0, only=None):
    tasks = []
    kinds = ['bool', 'int', 'neg', 'const']
    for kind in kinds:
        for qinit in QINITS:
            for plus_one in (True, False):
                for moore in (True, False):
                    tasks.append(dict(mod='vlib.props.c03', fn='make_init_family',
                                      kw=dict(kind=kind, qinit=qinit, plus_one=plus_one, moore=moore), timeout=1200,
                                      name=f'make_init:{kind}:{qinit}:plus_one={plus_one}:moore={moore}'))
                if kind == 'bool' and tier == 'quick' and qinit in ('\\A \\E', '\\E \\A'):
                    # quick: seeded 512 triples for the two disjoint-state forms; thorough: exhaustive
                    tasks.append(dict(mod='vlib.props.c03', fn='verdict_instances',
                                      kw=dict(kind='int' if False else 'bool', qinit=qinit, plus_one=plus_one, seed=seed, n=512),
                                      timeout=1800, name=f'verdict:bool:{qinit}:plus_one={plus_one}'))
                else:
                    tasks.append(dict(mod='vlib.props.c03', fn='verdict_instances',
                                      kw=dict(kind=kind, qinit=qinit, plus_one=plus_one, seed=seed,
                                              n=150 if tier == 'quick' else 1500),
                                      timeout=3000, name=f'verdict:{kind}:{qinit}:plus_one={plus_one}'))
    nb = 8 if tier == 'quick' else 32
    for shape in ('S11', 'B11a'):
        for i in range(nb):
            tasks.append(dict(mod='vlib.props.c03', fn='construct_instances',
                              kw=dict(shape=shape, seed=seed * 1000 + i, n=32), timeout=3000,
                              name=f'construct:{shape}[{i}]'))
    if only:
        tasks = [t for t in tasks if only in t['name']]
    results = core.run_tasks(tasks)
    evals = sum(r['extra'].get('evaluations', 1) for r in results)
    return core.finish(
        PID, tier, seed, 'model_checking', results, t0, files=FILES,
        bounds=dict(make_init='tables over (x, y): bool/bool, 0..2 / -1..1, -2..-1 / bool; 4 forms x 2 causality modes',
                    verdict='all 4*16*16 predicate triples over two Boolean variables (exhaustive), seeded triples over integers',
                    construct=f'{2 * nb * 32} seeded concrete members of S11/B11a x qinit x mode x objective'),
        rule='A: one z3 query per (declaration, form, causality): exported init[impl] differs from the documented '
             'formula for some predicate triple and state; B: one obligation per (declaration, form, causality) '
             'aggregating all predicate triples, expected verdict = z3 validity of the documented quantified formula; '
             'C: per concrete game, construction must succeed iff verdict and region non-empty, result checked by '
             'enumeration. Non-trivial = both verdicts occur / construction succeeded',
        assumptions=['z3 (quantified Boolean formulas over <= 6 bits)', 'dd node accessors',
                     'Win is an arbitrary predicate for A and B (C01/C04 decide the region itself)'],
        outside=['predicates over more than 4 state bits'],
        extra_cov=dict(predicate_triples_evaluated=evals))
