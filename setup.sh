#!/bin/sh
# Offline overlay venv: /venv's packages (omega editable -> /repo, dd, ply, ...)
# plus z3-solver / crosshair-tool / cvc5 / jsonschema from the local wheelhouse.
set -e
HERE="$(cd "$(dirname "$0")" && pwd)"
V="$HERE/.venv"
if [ -x "$V/bin/python" ] && "$V/bin/python" -c 'import z3, omega, dd, jsonschema' 2>/dev/null; then
    exit 0
fi
rm -rf "$V"
/venv/bin/python -m venv "$V"
SP="$("$V/bin/python" -c 'import sysconfig; print(sysconfig.get_paths()["purelib"])')"
echo "import site; site.addsitedir('/venv/lib/python3.12/site-packages')" > "$SP/_venv_overlay.pth"
PIP_NO_INDEX=1 "$V/bin/python" -m pip install -q --no-index --find-links /opt/veriftools/wheels \
    z3-solver crosshair-tool jsonschema >/dev/null 2>&1 || \
PIP_NO_INDEX=1 "$V/bin/python" -m pip install --no-index --find-links /opt/veriftools/wheels \
    z3-solver crosshair-tool jsonschema
# cvc5 wheel is optional (second-opinion engine)
PIP_NO_INDEX=1 "$V/bin/python" -m pip install -q --no-index --find-links /opt/veriftools/wheels cvc5 >/dev/null 2>&1 || true
"$V/bin/python" -c 'import z3, omega, dd, jsonschema; print("verif venv ok: z3", z3.get_version_string())'
