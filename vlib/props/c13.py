"""C13 — generated code computes outputs that satisfy the relation it came from.

Translation validation of the *emitted program*, executed symbolically:
  roots     `codegen.dumps_bdd_as_code(roots, bdd, lang)` for lang in {python, c}: the
            straight-line latch code is read by a small expression reader into z3
            terms; each `out_bits[name]` must equal the exported root for all inputs.
  program   `codegen.dumps_bdds_as_code(u, out_vars, aut)`: `compute_bdds` read into
            z3 the same way; for all state bits:
              (exists outputs. R)  =>  R[output bits := code outputs, missing := False]
  glue      `int_to_bits` / `assign_bitvectors` (state ints -> bits) and
            `out_bits_to_ints` / `bitfields_to_ints` (bits -> ints): CrossHair, against
            the two's-complement link, negative values and Booleans included.
  replay    the generated Python file is really executed on the model's state.
"""
import itertools
import os
import random
import re
import tempfile
import time

from vlib import core

PID = 'C13'
FILES = ['omega/symbolic/codegen.py', 'omega/symbolic/functions.py', 'omega/logic/bitvector.py']
FUNCS = ['codegen.dumps_bdds_as_code', 'codegen.dumps_bdd_as_code', 'codegen._collect_layers', 'codegen._dumps_node',
         'codegen._latch_ref', 'codegen._latch_name', 'codegen._register_nodes', 'codegen.map_bits_to_bitvectors',
         'codegen.int_to_bits', 'codegen.assign_bitvectors', 'codegen.out_bits_to_ints', 'codegen.step',
         'bitvector.bitfields_to_ints', 'bitvector._append_sign_bit', 'bitvector.twos_complement_to_int',
         'functions.make_functions']
SOLVER_MS = 120000

TOK = re.compile(r'\s*(?:(\(|\)|&&|\|\||!|=|;)|(out_bits\["[^"]+"\])|(bitvectors\["[^"]+"\](?:\[\d+\])?)|([A-Za-z_][A-Za-z_0-9\']*))')


def read_code(code, atom):
    """Straight-line latch code (Python or C syntax) -> dict out name -> z3 term.

    Grammar: { [latch|out_bits["n"]] = expr [;] }  with
    expr := or ; or := and { (or|'||') and } ; and := un { (and|'&&') un } ;
    un := (not|'!') un | '(' expr ')' | True|true|False|false | latch | bit reference."""
    import z3
    text = '\n'.join(l for l in code.splitlines() if not l.strip().startswith(('#', '//')))
    toks = []
    pos = 0
    while pos < len(text):
        m = TOK.match(text, pos)
        if not m:
            if text[pos:].strip() == '':
                break
            raise ValueError(f'cannot read generated code at: {text[pos:pos + 40]!r}')
        toks.append(next(g for g in m.groups() if g is not None))
        pos = m.end()
    i = [0]
    latches = {}
    outs = {}

    def peek():
        return toks[i[0]] if i[0] < len(toks) else None

    def take():
        t = toks[i[0]]
        i[0] += 1
        return t

    def un():
        t = take()
        if t in ('not', '!'):
            return z3.Not(un())
        if t == '(':
            e = or_()
            assert take() == ')'
            return e
        if t in ('True', 'true'):
            return z3.BoolVal(True)
        if t in ('False', 'false'):
            return z3.BoolVal(False)
        if t.startswith('latch_'):
            return latches[t]
        return atom(t)

    def and_():
        e = un()
        while peek() in ('and', '&&'):
            take()
            e = z3.And(e, un())
        return e

    def or_():
        e = and_()
        while peek() in ('or', '||'):
            take()
            e = z3.Or(e, and_())
        return e
    while i[0] < len(toks):
        tgt = take()
        assert take() == '=', f'expected assignment after {tgt}'
        e = or_()
        if peek() == ';':
            take()
        if tgt.startswith('out_bits['):
            outs[tgt[len('out_bits["'):-2]] = e
        else:
            assert tgt.startswith('latch_') and tgt not in latches, tgt
            latches[tgt] = e
    return outs, len(latches)


# ------------------------------------------------------------------ roots

def check_roots(seeds):
    import z3
    import omega.symbolic.fol as fol
    import omega.symbolic.codegen as cg
    from vlib import bdd2smt, sem
    from vlib.props import c07
    out = []
    for seed in seeds:
        rnd = random.Random(seed)
        decl = rnd.choice(c07.DECLS)
        ctx = fol.Context()
        ctx.declare(**decl)
        roots = {}
        strs = {}
        for k in range(rnd.choice([1, 2, 3])):
            tree = c07.gen_pred(rnd, decl, rnd.choice([1, 2]))
            strs[f'root{k}'] = sem.to_str(tree)
            roots[f'root{k}'] = ctx.add_expr(strs[f'root{k}'])
        if rnd.random() < 0.3:
            roots['neg'] = ~ roots['root0']
            strs['neg'] = '~ ' + strs['root0']
        exp = bdd2smt.Exporter(ctx.bdd)
        bits = exp.bits
        for lang in ('python', 'c'):
            name = f'roots #{seed} lang={lang}'
            sample = dict(decl=decl, roots=strs, lang=lang)
            t1 = time.time()
            try:
                code = cg.dumps_bdd_as_code(roots, ctx.bdd, lang=lang)
                outs, nl = read_code(code, lambda t: bits(t))
            except Exception as e:  # noqa
                out.append(core.res(name, 'violation', sample=sample, nontrivial=True, functions=FUNCS,
                                    signature=f'roots:{type(e).__name__}', detail=f'{type(e).__name__}: {e}',
                                    cex=dict(kind='roots', seed=seed, lang=lang)))
                continue
            q = {}
            bad = None
            if set(outs) != set(roots):
                bad = (f'outputs {sorted(outs)} != roots {sorted(roots)}', None)
            for nm, u in roots.items():
                if bad:
                    break
                sol = z3.Solver()
                sol.set('timeout', SOLVER_MS)
                sol.add(outs[nm] != exp.export(u))
                r = str(sol.check())
                q[r] = q.get(r, 0) + 1
                if r == 'sat':
                    m = sol.model()
                    a = {str(d): z3.is_true(m[d]) for d in m.decls()}
                    bad = (f'code value of {nm} differs from the BDD', a)
                elif r != 'unsat':
                    bad = (f'solver {r}', 'unknown')
            dt = time.time() - t1
            sample['latches'] = nl
            if not bad:
                out.append(core.res(name, 'holds', queries=q, solver_s=dt, sample=sample, nontrivial=nl > 0, functions=FUNCS,
                                    extra=dict(programs=1)))
            elif bad[1] == 'unknown':
                out.append(core.res(name, 'inconclusive', queries=q, solver_s=dt, sample=sample, detail=bad[0]))
            else:
                cex = dict(kind='roots', seed=seed, lang=lang, bits=bad[1])
                ok, why = replay(dict(cex=cex)) if lang == 'python' else (True, 'C syntax: structural reading only')
                out.append(core.res(name, 'violation' if ok else 'inconclusive', queries=q, solver_s=dt, sample=sample,
                                    nontrivial=True, functions=FUNCS, signature=f'roots:{lang}',
                                    detail=f'{bad[0]} at {bad[1]}; {why}', cex=cex, extra=dict(programs=1)))
    return out


# ------------------------------------------------------------------ whole program

PROG_DECLS = [
    (dict(x=(1, 6), y=(1, 6)), ['y']),
    (dict(x=(0, 3), y=(-2, 1), z=(-3, -1)), ['y', 'z']),
    (dict(x=(-3, 2), w=(-4, -1), y=(0, 5)), ['y']),
    (dict(a='bool', x=(-2, 1), y=(0, 3), b='bool'), ['y', 'b']),
    (dict(x=(0, 2), v=(-1, 1), y=(-1, 1), z=(0, 1)), ['y', 'z']),
    # wide inputs (more than ten bits: bit names x_10, x_11 sort before x_2 lexicographically)
    (dict(x=(0, 2047), y=(0, 3)), ['y']),
    (dict(x=(-1024, 1023), y=(-2, 1)), ['y']),
]


def gen_action(rnd, decl, outs):
    """Relation between current values and next output values."""
    wide = [k for k, v in decl.items() if v != 'bool' and max(abs(v[0]), abs(v[1])) > 200]
    if wide:
        x, y = wide[0], outs[0]
        lo, hi = decl[x]
        ylo, yhi = decl[y]

        def thr():
            return ('cmp', rnd.choice(['>=', '<', '<=', '>']), ('var', x, False), ('num', rnd.randint(lo, hi)))
        t = ('bin', 'equiv', ('cmp', '=', ('var', y, True), ('num', rnd.randint(ylo, yhi))),
             ('bin', rnd.choice(['and', 'or', 'xor']), thr(), thr()))
        if rnd.random() < 0.5:
            t = ('bin', 'and', t, ('cmp', '#', ('var', y, True), ('num', rnd.randint(ylo, yhi))))
        return t
    ints = [k for k, v in decl.items() if v != 'bool']
    bools = [k for k, v in decl.items() if v == 'bool']
    if rnd.random() < 0.3:
        # piecewise, partial relations: a few input regions, each forcing its own output values; inputs outside
        # every region have no output (the extracted functions are unconstrained there)
        ins_i = [k for k in ints if k not in outs]
        ins_b = [k for k in bools if k not in outs]
        cases = []
        for _ in range(rnd.randint(2, 3)):
            parts = []
            if ins_i:
                k = rnd.choice(ins_i)
                lo, hi = decl[k]
                parts.append(('cmp', rnd.choice(['=', '=', '<=', '>=']), ('var', k, False), ('num', rnd.randint(lo - 1, hi + 1))))
            if ins_b and rnd.random() < 0.5:
                k = rnd.choice(ins_b)
                parts.append(('bvar', k, False) if rnd.random() < 0.5 else ('not', ('bvar', k, False)))
            for o in outs:
                if decl[o] == 'bool':
                    parts.append(('bvar', o, True) if rnd.random() < 0.5 else ('not', ('bvar', o, True)))
                else:
                    lo, hi = decl[o]
                    rhs = ('num', rnd.randint(lo, hi)) if (rnd.random() < 0.6 or not ins_i) else \
                        ('arith', rnd.choice(['+', '-']), ('var', rnd.choice(ins_i), False), ('num', rnd.randint(0, 2)))
                    parts.append(('cmp', '=', ('var', o, True), rhs))
            if not parts:
                continue
            c = parts[0]
            for q_ in parts[1:]:
                c = ('bin', 'and', c, q_)
            cases.append(c)
        if cases:
            t = cases[0]
            for c in cases[1:]:
                t = ('bin', 'or', t, c)
            return t

    def var(k):
        return ('var', k, k in outs and rnd.random() < 0.6)

    def ga(d):
        if d == 0 or rnd.random() < 0.4:
            return var(rnd.choice(ints)) if rnd.random() < 0.7 else ('num', rnd.randint(-3, 3))
        return ('arith', rnd.choice(['+', '-', '+']), ga(d - 1), ga(d - 1))

    def gb(d):
        r = rnd.random()
        if d == 0:
            if bools and r < 0.3:
                k = rnd.choice(bools)
                return ('bvar', k, k in outs and rnd.random() < 0.7)
            o = rnd.choice([k for k in outs if k in ints] or ints)
            return ('cmp', rnd.choice(['=', '=', '<=', '>=', '#']), ('var', o, o in outs), ga(1))
        if r < 0.5:
            return gb(0)
        if r < 0.6:
            return ('not', gb(d - 1))
        return ('bin', rnd.choice(['and', 'or', 'implies', 'equiv']), gb(d - 1), gb(d - 1))
    return gb(rnd.choice([1, 2, 2]))


def _program(seed):
    import omega.symbolic.temporal as trl
    import omega.symbolic.codegen as cg
    from vlib import sem
    rnd = random.Random(seed)
    decl, outs = PROG_DECLS[seed % len(PROG_DECLS)]
    aut = trl.Automaton()
    aut.declare_variables(**decl)
    tree = gen_action(rnd, decl, outs)
    s = sem.to_str(tree)
    u = aut.add_expr(s)
    out_vars = [k + "'" for k in outs]
    return aut, decl, outs, out_vars, s, u, tree


def check_programs(seeds):
    import z3
    import omega.symbolic.codegen as cg
    from vlib import bdd2smt, link
    out = []
    for seed in seeds:
        aut, decl, outs, out_vars, s, u, tree = _program(seed)
        name = f'program #{seed}'
        sample = dict(decl=decl, out_vars=out_vars, relation=s)
        if u == aut.false:
            continue
        t1 = time.time()
        try:
            code = cg.dumps_bdds_as_code(u, out_vars, aut)
        except Exception as e:  # noqa
            out.append(core.res(name, 'violation', sample=sample, nontrivial=True, functions=FUNCS,
                                signature=f'program:generate:{type(e).__name__}',
                                detail=f'dumps_bdds_as_code raised {type(e).__name__}: {e} for {s!r}',
                                cex=dict(kind='generate', seed=seed)))
            continue
        exp = bdd2smt.Exporter(aut.bdd)
        bits = exp.bits
        body = code[code.index('def compute_bdds(bitvectors):'):code.index('    return out_bits')]
        body = '\n'.join(l[4:] for l in body.splitlines()[2:])

        def atom(t):
            m = re.match(r'bitvectors\["([^"]+)"\]\[(\d+)\]$', t)
            if m:
                return bits(aut.vars[m.group(1)]['bitnames'][int(m.group(2))])
            m = re.match(r'bitvectors\["([^"]+)"\]$', t)
            if m:
                return bits(m.group(1))     # Boolean input
            return bits(t)
        try:
            code_outs, nl = read_code(body, atom)
        except Exception as e:  # noqa
            out.append(core.res(name, 'inconclusive', sample=sample, detail=f'cannot read generated code: {e}'))
            continue
        R = exp.export(u)
        obits = []
        for k in outs:
            obits.extend(link.bits_of(k, aut.vars[k], primed=True))
        missing = [b for b in obits if b not in code_outs]
        insts = [z3.substitute(R, *[(bits(b), z3.BoolVal(v)) for b, v in zip(obits, vs)])
                 for vs in itertools.product([False, True], repeat=len(obits))]
        sub = [(bits(b), code_outs[b]) for b in obits if b in code_outs] + [(bits(b), z3.BoolVal(False)) for b in missing]
        Rp = z3.substitute(R, *sub)
        sol = z3.Solver()
        sol.set('timeout', SOLVER_MS)
        sol.add(z3.Or(insts), z3.Not(Rp))
        r = str(sol.check())
        dt = time.time() - t1
        sample.update(latches=nl, output_bits=len(obits), missing_bits=missing)
        q = {r: 1}
        extra = dict(programs=1)
        if r == 'unsat':
            # the real program is also run on seeded concrete states (keys, glue)
            bad = _run_concrete(code, aut, decl, outs, out_vars, u, seed, 6)
            if bad:
                out.append(core.res(name, 'violation', queries=q, solver_s=dt, sample=sample, nontrivial=True,
                                    functions=FUNCS, signature='program:run:' + bad[0], detail=f'{s!r} with {decl}: {bad[1]}',
                                    cex=dict(kind='run', seed=seed, state=bad[2]), extra=extra))
            else:
                out.append(core.res(name, 'holds', queries=q, solver_s=dt, sample=sample, nontrivial=True, functions=FUNCS,
                                    extra=extra))
        elif r == 'sat':
            state = link.model_values(sol.model(), {k: aut.vars[k] for k in decl}, bits)
            bad = _run_concrete(code, aut, decl, outs, out_vars, u, seed, 0, states=[state])
            if bad:
                out.append(core.res(name, 'violation', queries=q, solver_s=dt, sample=sample, nontrivial=True,
                                    functions=FUNCS, signature='program:' + bad[0], detail=f'{s!r} with {decl}: {bad[1]}',
                                    cex=dict(kind='run', seed=seed, state=state), extra=extra))
            else:
                out.append(core.res(name, 'inconclusive', queries=q, solver_s=dt, sample=sample,
                                    detail=f'symbolic counterexample {state} did not reproduce when the program was run'))
        else:
            out.append(core.res(name, 'inconclusive', queries=q, solver_s=dt, sample=sample, detail=r))
    return out


def _run_concrete(code, aut, decl, outs, out_vars, u, seed, n, states=None):
    """Execute the generated Python program for real. Returns (kind, text, state) or None."""
    from vlib import link
    rnd = random.Random(seed + 1)
    ns = {'__name__': 'generated_program'}
    try:
        exec(compile(code, '<generated>', 'exec'), ns)
    except Exception as e:  # noqa
        return ('load', f'generated program does not load: {type(e).__name__}: {e}', None)
    if states is None:
        states = []
        for _ in range(n):
            st = {}
            for k in decl:
                d = aut.vars[k]
                if d['type'] == 'bool':
                    st[k] = rnd.random() < 0.5
                else:
                    lo, hi = link.rep_range(d)
                    st[k] = rnd.randint(lo, hi)
            states.append(st)
    for st in states:
        cur = aut.let({k: v for k, v in st.items() if k in aut.support(u)}, u)
        solvable = cur != aut.false
        if not solvable:
            continue
        try:
            res_ = ns['step'](dict(st))
        except Exception as e:  # noqa
            return (f'{type(e).__name__}', f'step({st}) raised {type(e).__name__}: {e}', st)
        if set(res_) != set(out_vars):
            return ('keys', f'step({st}) returned keys {sorted(res_)}, requested {sorted(out_vars)}', st)
        nxt = {k: v for k, v in res_.items() if k in aut.support(cur)}
        after = aut.let(nxt, cur) if nxt else cur
        if after != aut.true:
            return ('relation', f'step({st}) returned {res_}, which does not satisfy the relation with that state', st)
    return None


def replay(payload):
    c = payload['cex']
    if c['kind'] in ('run', 'generate'):
        import omega.symbolic.codegen as cg
        aut, decl, outs, out_vars, s, u, tree = _program(c['seed'])
        try:
            code = cg.dumps_bdds_as_code(u, out_vars, aut)
        except Exception as e:  # noqa
            return True, f'dumps_bdds_as_code raised {type(e).__name__}: {e}'
        bad = _run_concrete(code, aut, decl, outs, out_vars, u, c['seed'], 6, states=[c['state']] if c.get('state') else None)
        return bool(bad), (bad[1] if bad else 'program satisfies the relation on this state')
    if c['kind'] == 'roots':
        import omega.symbolic.fol as fol
        import omega.symbolic.codegen as cg
        from vlib import sem
        from vlib.props import c07
        rnd = random.Random(c['seed'])
        decl = rnd.choice(c07.DECLS)
        ctx = fol.Context()
        ctx.declare(**decl)
        roots = {}
        for k in range(rnd.choice([1, 2, 3])):
            tree = c07.gen_pred(rnd, decl, rnd.choice([1, 2]))
            roots[f'root{k}'] = ctx.add_expr(sem.to_str(tree))
        if rnd.random() < 0.3:
            roots['neg'] = ~ roots['root0']
        code = cg.dumps_bdd_as_code(roots, ctx.bdd, lang='python')
        state = {b: False for b in ctx.bdd.vars}
        state.update({k: v for k, v in c.get('bits', {}).items() if k in state})
        ns = dict(state, out_bits=dict())
        exec(code, ns)
        for nm, u in roots.items():
            want = ctx.bdd.let({k: v for k, v in state.items() if k in ctx.bdd.support(u)}, u) == ctx.bdd.true
            if bool(ns['out_bits'][nm]) != want:
                return True, f'executed code gives {nm}={ns["out_bits"][nm]}, BDD value {want} at {state}'
        return False, 'executed code agrees with the BDDs at this input'
    if c['kind'] == 'crosshair':
        from vlib import chrun
        return chrun.replay_call(c['module'], c['func'], c['args'])
    return False, 'unknown counterexample kind'


def run(tier, seed, t0, only=None):
    n_roots = 40 if tier == 'quick' else 600
    n_prog = 60 if tier == 'quick' else 1500
    tasks = []
    ch_timeout = 400 if tier == 'quick' else 900  # a bound, not a cost (15-20 s)
    for f in ('prop_int_to_bits', 'prop_assign_bitvectors', 'prop_out_bits_to_ints'):
        tasks.append(dict(mod='vlib.chrun', fn='ch_task', kw=dict(module='vlib.ch.h13', func=f, timeout=ch_timeout, functions=FUNCS),
                          timeout=ch_timeout * 4 + 300, name=f'crosshair:{f}'))
    for be in ('cudd', 'autoref'):
        seeds = [seed * 10000 + i for i in range(n_roots if be == 'cudd' else n_roots // 4)]
        for i in range(0, len(seeds), 5):
            tasks.append(dict(mod='vlib.props.c13', fn='check_roots', kw=dict(seeds=seeds[i:i + 5]), backend=be,
                              timeout=1800, name=f'{be}:roots[{i}]'))
        seeds = [seed * 10000 + i for i in range(n_prog if be == 'cudd' else n_prog // 4)]
        for i in range(0, len(seeds), 5):
            tasks.append(dict(mod='vlib.props.c13', fn='check_programs', kw=dict(seeds=seeds[i:i + 5]), backend=be,
                              timeout=1800, name=f'{be}:programs[{i}]'))
    if only:
        tasks = [t for t in tasks if only in t['name']]
    results = core.run_tasks(tasks)
    programs = sum(r['extra'].get('programs', 0) for r in results)
    disagreements = sum(1 for r in results if r['status'] == 'violation')
    return core.finish(
        PID, tier, seed, 'translation_validation', results, t0, files=FILES,
        bounds=dict(roots=f'{n_roots} seeded sets of 1-4 BDD roots x 2 target syntaxes',
                    programs=f'{n_prog} seeded relations over {len(PROG_DECLS)} declarations (signed / unsigned / all-negative '
                             'integers of 1-3 bits, Booleans), 1-2 output variables',
                    glue='CrossHair: int_to_bits / assign_bitvectors / out_bits_to_ints on widths 1..4 and all representable values'),
        rule='one obligation per emitted program: the straight-line code is read into z3 and compared with the exported '
             'BDD roots (all inputs), or composed into R and checked for every state with a solvable relation; each passing '
             'program is also executed for real on seeded states. Non-trivial = the code has at least one latch',
        assumptions=['z3', 'dd node accessors', 'the expression reader for the emitted latch code (Python and C syntax)',
                     'CrossHair for the integer<->bit glue copied into the generated file'],
        outside=['identifiers wider than 4 bits', 'the C-syntax target is only read structurally, not compiled'],
        extra_cov=dict(programs=programs, disagreements_checked=disagreements))
