"""Box-level reasoning for C08/C09/C10, independent of omega's parameter lattice.

A box is a dict name -> (lo, hi).  Predicates F and CARE are evaluated at the
concrete points of the bit-range domain (product of the representable ranges);
queries about *all alternative covers* use symbolic endpoints (one-hot over the value ranges).
"""
import itertools

import z3

from vlib import link


def domain(ctx, names):
    ranges = [link.rep_range(ctx.vars[n]) for n in names]
    pts = list(itertools.product(*[range(lo, hi + 1) for lo, hi in ranges]))
    return ranges, pts


def truth_table(ctx, u, names, pts):
    """dict point -> bool via Context.let (real code, only used to read the *input*)."""
    out = {}
    sup = ctx.support(u)
    for p in pts:
        d = {n: v for n, v in zip(names, p) if n in sup}
        r = ctx.let(d, u) if d else u
        assert r == ctx.true or r == ctx.false, sup
        out[p] = (r == ctx.true)
    return out


def truth_table_smt(exp, ctx, u, names, pts):
    """Same, from the exported BDD (z3 substitution); cross-checks `truth_table`."""
    e = exp.export(u)
    out = {}
    for p in pts:
        sub = []
        for n, v in zip(names, p):
            for b, val in link.value_to_bits(n, ctx.vars[n], v).items():
                sub.append((exp.bits(b), z3.BoolVal(val)))
        r = z3.simplify(z3.substitute(e, *sub))
        assert z3.is_true(r) or z3.is_false(r), r
        out[p] = z3.is_true(r)
    return out


def boxes_of_cover(cover, prm, fol):
    """List of boxes (dict x -> (a, b)) represented by the parameter BDD `cover`."""
    px = prm._px
    out = []
    pvars = sorted(prm.p_vars)
    for d in fol.pick_iter(cover, care_vars=pvars):
        out.append({x: (d[px[x]['a']], d[px[x]['b']]) for x in sorted(px)})
    return out


def in_box(box, names, p):
    return all(box[n][0] <= v <= box[n][1] for n, v in zip(names, p))


def check_cover(boxes, names, ranges, pts, F, CARE):
    """Concrete facts about a list of boxes. Returns list of problem strings."""
    problems = []
    bad = {p for p in pts if CARE[p] and not F[p]}
    for b in boxes:
        for n, (lo, hi) in zip(names, ranges):
            a, c = b[n]
            if not (lo <= a <= c <= hi):
                problems.append(f'box {b} is empty or leaves the bit range')
        inside = [p for p in pts if in_box(b, names, p)]
        if any(p in bad for p in inside):
            problems.append(f'box {b} contains a care point outside the predicate')
            continue
        # maximal: every one-step extension picks up a bad point (or leaves the range)
        for n, (lo, hi) in zip(names, ranges):
            a, c = b[n]
            for ext in ((a - 1, c), (a, c + 1)):
                if ext[0] < lo or ext[1] > hi:
                    continue
                b2 = dict(b)
                b2[n] = ext
                if not any(p in bad for p in pts if in_box(b2, names, p)):
                    problems.append(f'box {b} is not maximal: {n} extends to {ext}')
    for p in pts:
        if F[p] and not any(in_box(b, names, p) for b in boxes):
            problems.append(f'point {dict(zip(names, p))} of the predicate is not covered')
            break
    keys = [tuple(sorted(b.items())) for b in boxes]
    if len(set(keys)) != len(keys):
        problems.append('the cover lists a box twice')
    return problems


class BoxVars:
    """k symbolic boxes; endpoints one-hot encoded over the (tiny) value ranges, so every
    query below is purely propositional."""

    def __init__(self, k, names, ranges, tag='s'):
        self.k = k
        self.names = names
        self.ranges = ranges
        self.L = [[{a: z3.Bool(f'{tag}{j}_lo_{n}_{a}') for a in range(lo, hi + 1)}
                   for n, (lo, hi) in zip(names, ranges)] for j in range(k)]
        self.H = [[{a: z3.Bool(f'{tag}{j}_hi_{n}_{a}') for a in range(lo, hi + 1)}
                   for n, (lo, hi) in zip(names, ranges)] for j in range(k)]

    @staticmethod
    def _one(bs):
        bs = list(bs)
        cs = [z3.Or(bs)]
        for i in range(len(bs)):
            for j in range(i + 1, len(bs)):
                cs.append(z3.Or(z3.Not(bs[i]), z3.Not(bs[j])))
        return cs

    def wellformed(self):
        cs = []
        for j in range(self.k):
            for d in range(len(self.names)):
                cs += self._one(self.L[j][d].values())
                cs += self._one(self.H[j][d].values())
                for a in self.L[j][d]:
                    for b in self.H[j][d]:
                        if a > b:
                            cs.append(z3.Or(z3.Not(self.L[j][d][a]), z3.Not(self.H[j][d][b])))
        return cs

    def _ge_lo(self, j, d, v):      # lo <= v
        return z3.Or([b for a, b in self.L[j][d].items() if a <= v])

    def _le_hi(self, j, d, v):      # v <= hi
        return z3.Or([b for a, b in self.H[j][d].items() if a >= v])

    def contains(self, j, p):
        return z3.And([z3.And(self._ge_lo(j, d, v), self._le_hi(j, d, v)) for d, v in enumerate(p)])

    def implicants(self, bad):
        return [z3.Not(self.contains(j, p)) for j in range(self.k) for p in bad]

    def covers(self, on):
        return [z3.Or([self.contains(j, p) for j in range(self.k)]) for p in on]

    def prime(self, j, bad):
        """Maximal: in each direction, at the border of the range or the one-step slab has a bad point."""
        cs = []
        for d, (lo, hi) in enumerate(self.ranges):
            def slab(p, side):
                others = [z3.And(self._ge_lo(j, e, v), self._le_hi(j, e, v)) for e, v in enumerate(p) if e != d]
                if side == 'lo':
                    if p[d] + 1 > hi:
                        return z3.BoolVal(False)
                    edge = self.L[j][d][p[d] + 1]
                else:
                    if p[d] - 1 < lo:
                        return z3.BoolVal(False)
                    edge = self.H[j][d][p[d] - 1]
                return z3.And(others + [edge])
            cs.append(z3.Or([self.L[j][d][lo]] + [slab(p, 'lo') for p in bad]))
            cs.append(z3.Or([self.H[j][d][hi]] + [slab(p, 'hi') for p in bad]))
        return cs

    def equals(self, j, box):
        return z3.And([z3.And(self.L[j][d][box[n][0]], self.H[j][d][box[n][1]]) for d, n in enumerate(self.names)])

    def distinct(self):
        cs = []
        for i in range(self.k):
            for j in range(i + 1, self.k):
                diff = []
                for d in range(len(self.names)):
                    diff += [z3.Xor(self.L[i][d][a], self.L[j][d][a]) for a in self.L[i][d]]
                    diff += [z3.Xor(self.H[i][d][a], self.H[j][d][a]) for a in self.H[i][d]]
                cs.append(z3.Or(diff))
        return cs

    def model_boxes(self, m):
        out = []
        for j in range(self.k):
            b = {}
            for d, n in enumerate(self.names):
                lo = [a for a, v in self.L[j][d].items() if z3.is_true(m.eval(v, model_completion=True))]
                hi = [a for a, v in self.H[j][d].items() if z3.is_true(m.eval(v, model_completion=True))]
                b[n] = (lo[0], hi[0])
            out.append(b)
        return out


def smaller_cover_exists(k, names, ranges, pts, F, CARE, timeout_ms=120000):
    """z3: is there a cover of F by k boxes inside F \\/ ~CARE ?  ('sat', boxes) / ('unsat', None) / (other, None)"""
    if k < 0:
        return 'unsat', None
    on = [p for p in pts if F[p]]
    bad = [p for p in pts if CARE[p] and not F[p]]
    if k == 0:
        return ('sat', []) if not on else ('unsat', None)
    bx = BoxVars(k, names, ranges)
    sol = z3.Solver()
    sol.set('timeout', timeout_ms)
    sol.add(*bx.wellformed())
    sol.add(*bx.implicants(bad))
    sol.add(*bx.covers(on))
    r = str(sol.check())
    if r == 'sat':
        return r, bx.model_boxes(sol.model())
    return r, None


def explicit_primes(names, ranges, pts, F, CARE):
    """All maximal boxes inside F \\/ ~CARE by brute force over every box of the domain."""
    bad = {p for p in pts if CARE[p] and not F[p]}
    spans = [[(a, b) for a in range(lo, hi + 1) for b in range(a, hi + 1)] for lo, hi in ranges]
    impl = []
    for combo in itertools.product(*spans):
        b = dict(zip(names, combo))
        if not any(in_box(b, names, p) for p in bad):
            impl.append(b)

    def inside(b, c):
        return all(c[n][0] <= b[n][0] and b[n][1] <= c[n][1] for n in names)
    return [b for b in impl if not any(b is not c and b != c and inside(b, c) for c in impl)]


def smaller_cover_exists_setcover(k, names, ranges, pts, F, CARE, timeout_ms=300000):
    """Second formulation of the same question: at most k of the explicitly enumerated maximal boxes cover F
    (every cover by implicant boxes extends to one by maximal boxes of the same size)."""
    on = [p for p in pts if F[p]]
    if k < 0:
        return 'unsat', None
    primes = explicit_primes(names, ranges, pts, F, CARE)
    sel = [z3.Bool(f'sel{i}') for i in range(len(primes))]
    sol = z3.Solver()
    sol.set('timeout', timeout_ms)
    for p in on:
        sol.add(z3.Or([sel[i] for i, b in enumerate(primes) if in_box(b, names, p)]))
    if sel:
        sol.add(z3.AtMost(*sel, k))
    elif on:
        return 'unsat', None
    r = str(sol.check())
    if r == 'sat':
        m = sol.model()
        return r, [b for i, b in enumerate(primes) if z3.is_true(m.eval(sel[i], model_completion=True))]
    return r, None


def other_min_cover_exists(k, returned, names, ranges, pts, F, CARE, timeout_ms=120000):
    """z3: k pairwise-distinct *prime* boxes covering F whose set differs from every returned cover."""
    on = [p for p in pts if F[p]]
    bad = [p for p in pts if CARE[p] and not F[p]]
    bx = BoxVars(k, names, ranges)
    sol = z3.Solver()
    sol.set('timeout', timeout_ms)
    sol.add(*bx.wellformed())
    sol.add(*bx.implicants(bad))
    sol.add(*bx.covers(on))
    sol.add(*bx.distinct())
    for j in range(k):
        sol.add(*bx.prime(j, bad))
    for cov in returned:
        # differs from this returned cover: some symbolic box is none of its boxes
        sol.add(z3.Or([z3.And([z3.Not(bx.equals(j, b)) for b in cov]) for j in range(k)]))
    r = str(sol.check())
    if r == 'sat':
        return r, bx.model_boxes(sol.model())
    return r, None


def brute_min_cover(names, ranges, pts, F, CARE, limit=6):
    """Replay oracle without z3: minimum number of implicant boxes covering F (small domains)."""
    bad = {p for p in pts if CARE[p] and not F[p]}
    on = [p for p in pts if F[p]]
    boxes = []
    spans = [[(a, b) for a in range(lo, hi + 1) for b in range(a, hi + 1)] for lo, hi in ranges]
    for combo in itertools.product(*spans):
        b = dict(zip(names, combo))
        inside = [p for p in pts if in_box(b, names, p)]
        if not any(p in bad for p in inside):
            boxes.append(frozenset(p for p in inside if F[p]))
    # keep maximal coverage sets
    boxes = list({b for b in boxes if b})
    boxes = [b for b in boxes if not any(b < c for c in boxes)]
    target = frozenset(on)
    for k in range(0, limit + 1):
        for combo in itertools.combinations(boxes, k):
            if frozenset().union(*combo) == target if combo else not target:
                return k
    return None


def other_min_cover_exists_setcover(k, returned, names, ranges, pts, F, CARE, timeout_ms=300000):
    """Completeness as a selection problem over the explicitly enumerated maximal boxes: exactly k of them
    cover F and, for every returned cover, at least one of its boxes is not selected."""
    on = [p for p in pts if F[p]]
    primes = explicit_primes(names, ranges, pts, F, CARE)
    key = lambda b: tuple(sorted((n, tuple(v)) for n, v in b.items()))
    index = {key(b): i for i, b in enumerate(primes)}
    sel = [z3.Bool(f'sel{i}') for i in range(len(primes))]
    sol = z3.Solver()
    sol.set('timeout', timeout_ms)
    for p in on:
        sol.add(z3.Or([sel[i] for i, b in enumerate(primes) if in_box(b, names, p)]))
    if not sel:
        return 'unsat', None
    sol.add(z3.AtMost(*sel, k), z3.AtLeast(*sel, k))
    for cov in returned:
        idx = [index.get(key(b)) for b in cov]
        if any(i is None for i in idx):
            continue      # a returned box that is not maximal: reported by the point-wise facts
        sol.add(z3.Or([z3.Not(sel[i]) for i in idx]))
    r = str(sol.check())
    if r == 'sat':
        m = sol.model()
        return r, [b for i, b in enumerate(primes) if z3.is_true(m.eval(sel[i], model_completion=True))]
    return r, None
