import sys, time
sys.modules['dd.cudd'] = None   # force fallback to dd.autoref everywhere in omega
import omega.symbolic.fol as _fol
print('backend', _fol._bdd.__name__)
from p3 import build
import omega.games.gr1 as gr1
for moore, plus_one in [(True, True), (False, True)]:
    aut, allp = build(moore, plus_one, 1, 1, False)
    t0 = time.time()
    z, yij, xijk = gr1.solve_streett_game(aut)
    print(moore, plus_one, len(allp), 'params', len(z), 'nodes', f'{time.time()-t0:.1f}s', flush=True)
