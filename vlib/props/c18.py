"""C18 — priming, renaming and type-hint predicates are exact.

1. arithmetic core, symbolic declarations: `bitvector.dom_to_width`,
   `_type_hints._bitfield_limits`, `_type_hints._clip_subrange` are translated from
   their source (vlib.py2smt) and z3 proves, for all lo <= hi with |.| < 2^12 and all
   v: width >= 1, sign-definite => unsigned, every value of the hint is
   representable, limits are exactly the extremes of the stated representation.
2. public API per declaration (lo, hi) in a window: type_hint_for / type_action_for
   / type_invariants strings (re-read with omega's parser, interpreted by `sem`
   over integers), `_conjoin_type_hints`, `implies_type_hints` vs z3 validity.
3. priming at family level: rigid tables over state bits and constants;
   prime / unprime / replace_with_primed / replace_with_unprimed exports vs bit
   substitution; support classification vs dependence queries.
"""
import itertools
import random
import time

from vlib import core

PID = 'C18'
FILES = ['omega/symbolic/prime.py', 'omega/symbolic/temporal.py', 'omega/symbolic/_type_hints.py',
         'omega/logic/bitvector.py', 'omega/logic/syntax.py']
FUNCS = ['bitvector.dom_to_width', '_type_hints._bitfield_limits', '_type_hints._clip_subrange',
         '_type_hints._conjoin_type_hints', 'temporal.Automaton.type_hint_for', 'temporal.Automaton.type_action_for',
         'temporal.Automaton.implies_type_hints', 'bitvector.type_invariants', 'bitvector.bitblast_table',
         'prime.prime', 'prime.unprime', 'temporal.Automaton.replace_with_primed',
         'temporal.Automaton.replace_with_unprimed', 'prime.rigid_support', 'prime.flexible_support',
         'prime.primed_support', 'prime.unprimed_support', 'prime.vars_in_support', 'prime.is_state_predicate',
         'prime.is_proper_action', 'prime.is_primed_state_predicate', 'fol._refine_renaming']
B = 2 ** 12 - 1
SOLVER_MS = 120000


# ------------------------------------------------------------------ 1. arithmetic core

def arithmetic_core():
    import z3
    import omega.logic.bitvector as bv
    import omega.symbolic._type_hints as tyh
    from vlib import py2smt
    out = []
    lo, hi, v = z3.Ints('lo hi v')
    A = z3.And(-B <= lo, lo <= hi, hi <= B)

    def decide(name, fs, sample, vars_):
        sol = z3.Solver()
        sol.set('timeout', SOLVER_MS)
        sol.add(*fs)
        t1 = time.time()
        r = str(sol.check())
        dt = time.time() - t1
        if r == 'unsat':
            out.append(core.res(name, 'holds', queries={r: 1}, solver_s=dt, sample=sample, nontrivial=True, functions=FUNCS))
        elif r == 'sat':
            m = sol.model()
            vals = {str(x): m.eval(x, model_completion=True).as_long() for x in vars_}
            ok, why = replay(dict(cex=dict(kind='core', which=sample['function'], values=vals)))
            out.append(core.res(name, 'violation' if ok else 'inconclusive', queries={r: 1}, solver_s=dt, sample=sample,
                                nontrivial=True, functions=FUNCS, signature=f'core:{sample["function"]}',
                                detail=f'{vals}: {why}', cex=dict(kind='core', which=sample['function'], values=vals)))
        else:
            out.append(core.res(name, 'inconclusive', queries={r: 1}, solver_s=dt, sample=sample, detail=r))
    try:
        paths = py2smt.run(bv.dom_to_width, (lo, hi))
    except py2smt.Unsupported as e:
        return [core.res('py2smt dom_to_width', 'inconclusive', detail=f'Unsupported: {e}')]
    smp = dict(function='dom_to_width', bound=f'-{B} <= lo <= hi <= {B}', paths=len(paths))
    for i, (c, o) in enumerate(paths):
        if o[0] == 'raise':
            decide(f'dom_to_width never raises (path {i}: {o[1]})', [A, c], smp, [lo, hi])
    rets = [(c, o[1]) for c, o in paths if o[0] == 'return']
    for i, (c, (signed, width)) in enumerate(rets):
        sg = py2smt._bool(signed)
        decide(f'dom_to_width path {i}: width >= 1, signed iff the hint crosses zero',
               [A, c, z3.Not(z3.And(width >= 1, sg == z3.And(lo < 0, hi >= 0)))], smp, [lo, hi])
        try:
            lpaths = py2smt.run(tyh._bitfield_limits, dict(width=width, signed=sg, dom=(lo, hi)))
        except py2smt.Unsupported as e:
            out.append(core.res('py2smt _bitfield_limits', 'inconclusive', detail=f'Unsupported: {e}'))
            continue
        smp2 = dict(function='_bitfield_limits o dom_to_width', bound=smp['bound'], paths=len(lpaths))
        for j, (c2, o2) in enumerate(lpaths):
            if o2[0] == 'raise':
                decide(f'_bitfield_limits never raises (paths {i}.{j})', [A, c, c2], smp2, [lo, hi])
                continue
            L, H = o2[1]
            decide(f'every hinted value is representable (paths {i}.{j})',
                   [A, c, c2, lo <= v, v <= hi, z3.Not(z3.And(L <= v, v <= H))], smp2, [lo, hi, v])
            wantL = z3.If(sg, -py2smt.pow2(width - 1), z3.If(lo >= 0, z3.IntVal(0), -py2smt.pow2(width)))
            wantH = z3.If(sg, py2smt.pow2(width - 1) - 1, z3.If(lo >= 0, py2smt.pow2(width) - 1, z3.IntVal(-1)))
            decide(f'limits are the extremes of the representation (paths {i}.{j})',
                   [A, c, c2, z3.Not(z3.And(L == wantL, H == wantH))], smp2, [lo, hi])
    # _clip_subrange
    a, b, u, w, t = z3.Ints('a b u w t')
    Ac = z3.And(-B <= a, a <= b, b <= B, -B <= u, u <= w, w <= B, a <= w, b >= u)
    try:
        cpaths = py2smt.run(tyh._clip_subrange, (a, b), (u, w), 'x')
    except py2smt.Unsupported as e:
        out.append(core.res('py2smt _clip_subrange', 'inconclusive', detail=f'Unsupported: {e}'))
        cpaths = []
    smp3 = dict(function='_clip_subrange', bound='overlapping intervals within +-4095', paths=len(cpaths))
    for j, (c2, o2) in enumerate(cpaths):
        if o2[0] == 'raise':
            decide(f'_clip_subrange never raises on overlapping intervals (path {j})', [Ac, c2], smp3, [a, b, u, w])
            continue
        ra, rb = o2[1]
        if ra is None and rb is None:
            inres = z3.BoolVal(True)
        else:
            inres = z3.And(ra <= t, t <= rb)
        decide(f'_clip_subrange keeps exactly the points of the interval inside the hint (path {j})',
               [Ac, c2, u <= t, t <= w, z3.And(a <= t, t <= b) != inres], smp3, [a, b, u, w, t])
    return out


# ------------------------------------------------------------------ 2. public API per declaration

def api_declarations(pairs, seed):
    import z3
    import omega.logic.bitvector as bv
    import omega.logic.lexyacc as lexyacc
    import omega.symbolic.temporal as trl
    import omega.symbolic._type_hints as tyh
    from vlib import bdd2smt, link, sem
    parser = lexyacc.Parser()
    rnd = random.Random(seed)
    out = []
    for lo, hi in pairs:
        aut = trl.Automaton()
        aut.declare_variables(x=(lo, hi), b='bool')
        aut.declare_constants(c=(lo, hi))
        t = aut.vars
        exp = bdd2smt.Exporter(aut.bdd)
        bits = exp.bits
        env = sem.Env(t, bits)
        name0 = f'hint {lo}..{hi}'
        sample = dict(lo=lo, hi=hi, signed=t['x']['signed'], width=t['x']['width'])
        problems = []
        q = {}
        solver_s = 0.0

        def check(label, f):
            nonlocal solver_s
            sol = z3.Solver()
            sol.set('timeout', SOLVER_MS)
            sol.add(f)
            t1 = time.time()
            r = str(sol.check())
            solver_s += time.time() - t1
            q[r] = q.get(r, 0) + 1
            if r == 'sat':
                m = sol.model()
                vals = link.model_values(m, {k: t[k] for k in ('x', 'c')}, bits)
                vals.update(link.model_values(m, {'x': t['x']}, bits, primed=True))
                problems.append((label, vals))
            elif r != 'unsat':
                problems.append((label, 'unknown'))
        X = link.bv_of('x', t['x'], bits)
        XP = link.bv_of('x', t['x'], bits, primed=True)
        C = link.bv_of('c', t['c'], bits)
        W = link.W
        inh = lambda T: z3.And(z3.BitVecVal(lo, W) <= T, T <= z3.BitVecVal(hi, W))
        # representation chosen for the declaration
        rl, rh = link.rep_range(t['x'])
        if not (rl <= lo and hi <= rh and t['x']['width'] >= 1 and len(t['x']['bitnames']) == t['x']['width']):
            problems.append(('declared table does not hold the hint', dict(range=(rl, rh))))
        if (t['x']['signed'], t['x']['width']) != bv.dom_to_width((lo, hi)):
            problems.append(('declared table differs from dom_to_width', {}))
        lim = tyh._bitfield_limits(t['x'])
        if tuple(lim) != (rl, rh):
            problems.append(('_bitfield_limits differ from the representable range', dict(limits=lim, range=(rl, rh))))

        def interp(s):
            tree = sem.from_omega(parser.parse(s), t)
            return sem.to_z3(tree, env)[0]
        check('type_hint_for', interp(aut.type_hint_for(['x', 'b'])) != inh(X))
        check('type_hint_for primed', interp(aut.type_hint_for(["x'"])) != inh(XP))
        check('type_action_for', interp(aut.type_action_for(['x'])) != z3.And(inh(X), inh(XP)))
        check('type_hint_for constant', interp(aut.type_hint_for(['c'])) != inh(C))
        # explicit lists that mix an identifier with its primed sibling, a constant and a Boolean
        check('type_hint_for x and primed x', interp(aut.type_hint_for(['x', "x'"])) != z3.And(inh(X), inh(XP)))
        check('type_hint_for primed x, constant, Boolean', interp(aut.type_hint_for(["x'", 'c', 'b'])) != z3.And(inh(XP), inh(C)))
        check('_conjoin_type_hints', exp.export(tyh._conjoin_type_hints(['x', 'c', 'b'], aut)) != z3.And(inh(X), inh(C)))
        table = bv.bitblast_table({'x': dict(type='int', dom=(lo, hi)), "x'": dict(type='int', dom=(lo, hi))})
        init, safety = bv.type_invariants({'x': table['x']})
        check('type_invariants init', z3.And([interp(s) for s in init['x']]) != inh(X))
        check('type_invariants safety', z3.And([interp(s) for s in safety['x']]) != z3.And(inh(X), inh(XP)))
        # implies_type_hints on seeded boxes (possibly protruding from the hint)
        for k in range(4):
            a_ = rnd.randint(rl, rh)
            b_ = rnd.randint(a_, rh)
            u = aut.add_expr(f'(x \\in {a_}..{b_}) /\\ (c = {rnd.randint(lo, hi)})')
            got = aut.implies_type_hints(u, vrs=['x'])
            sol = z3.Solver()
            sol.add(exp.export(u), z3.Not(inh(X)))
            r = str(sol.check())
            q[r] = q.get(r, 0) + 1
            want = r == 'unsat'
            if got != want:
                problems.append((f'implies_type_hints(x in {a_}..{b_})', dict(got=got, want=want)))
        # default vrs=None: every declared identifier, rigid constants included
        crl, crh = link.rep_range(t['c'])
        for k in range(4):
            a_ = rnd.randint(rl, rh)
            b_ = rnd.randint(a_, rh)
            cv = rnd.randint(crl, crh)
            u = aut.add_expr(f'(x \\in {a_}..{b_}) /\\ (c = {cv})')
            got = aut.implies_type_hints(u)
            sol = z3.Solver()
            sol.add(exp.export(u), z3.Not(z3.And(inh(X), inh(C))))
            r = str(sol.check())
            q[r] = q.get(r, 0) + 1
            want = r == 'unsat'
            if got != want:
                problems.append((f'implies_type_hints(x in {a_}..{b_} /\\ c = {cv}) with the default vrs', dict(got=got, want=want)))
        if problems:
            lab, vals = problems[0]
            out.append(core.res(name0, 'violation', queries=q, solver_s=solver_s, sample=sample, nontrivial=True,
                                functions=FUNCS, signature=f'hints:{lab.split("(")[0]}',
                                detail=f'declaration x in {lo}..{hi}: {lab}: {vals} ({len(problems)} problem(s))',
                                cex=dict(kind='api', lo=lo, hi=hi, label=lab, values=vals)))
        else:
            out.append(core.res(name0, 'holds', queries=q, solver_s=solver_s, sample=sample, nontrivial=True, functions=FUNCS))
    return out


# ------------------------------------------------------------------ 3. priming families

def priming_family(kind):
    import z3
    import omega.symbolic.temporal as trl
    import omega.symbolic.prime as prm
    from vlib import bdd2smt, family, link
    decls = dict(
        bools=(dict(x='bool', y='bool', z='bool'), dict(k='bool')),
        ints=(dict(x='bool', y=(-1, 1), z=(-3, -1)), dict(k=(0, 2))),
        # an integer whose *name* equals the name of a bit of another integer (x_0 is also bit 0 of x); omega
        # accepts this when the two are declared in separate calls; identifiers and bits must not be confused
        clash=(dict(x=(0, 1), y=(-1, 1), z='bool'), dict(k='bool'), dict(x_0=(0, 2))),
    )[kind]
    aut = trl.Automaton()
    aut.declare_variables(**decls[0])
    if len(decls) > 2:
        aut.declare_variables(**decls[2])
        decls = (dict(decls[0], **decls[2]), decls[1])
    # siblings for prime.rename_variables, declared next to the originals (a rename across the ~100 table
    # constants further down the order does not finish in dd.autoref)
    aut.declare_variables(**{n + '2': d for n, d in decls[0].items()})
    aut.declare_constants(**decls[1])
    flex = list(decls[0])
    params = []
    expr = family.table(aut, 'p', flex + list(decls[1]), params)
    aut.declare_constants(**{p: 'bool' for p in params})
    u = aut.add_expr(expr)
    exp = bdd2smt.Exporter(aut.bdd)
    bits = exp.bits
    U = exp.export(u)
    out = []

    def ren_of(names, to_primed=True):
        """Bit renaming: the base predicate's bit `b` is read from bit `ren[b]` of the assignment."""
        ren = {}
        for n in names:
            for b in link.bits_of(n, aut.vars[n]):
                if to_primed:
                    ren[b] = b + "'"
                else:
                    ren[b + "'"] = b
        return ren

    def concrete(node, base, ren, model):
        """Evaluate, without z3, result and renamed base at the model's point on the real BDDs."""
        bdd = aut.bdd
        point = {v: bool(z3.is_true(model.eval(bits(v), model_completion=True))) for v in bdd.vars}
        got = bdd.let(point, node)
        moved = dict(point)
        for b, src in ren.items():
            moved[b] = point[src]
        want = bdd.let(moved, base)
        assert got in (bdd.true, bdd.false) and want in (bdd.true, bdd.false)
        return got == bdd.true, want == bdd.true, {k: v for k, v in point.items() if not k.startswith(('p_', 'm_'))}

    def decide(name, node, base, ren, sample):
        BASE = exp.export(base)
        f = exp.export(node) != z3.substitute(BASE, *[(bits(b), bits(src)) for b, src in ren.items()])
        sol = z3.Solver()
        sol.set('timeout', SOLVER_MS)
        sol.add(f)
        t1 = time.time()
        r = str(sol.check())
        dt = time.time() - t1
        if r == 'unsat':
            out.append(core.res(f'priming {kind} {name}', 'holds', queries={r: 1}, solver_s=dt, sample=sample,
                                nontrivial=True, functions=FUNCS))
        elif r == 'sat':
            m = sol.model()
            got, want, point = concrete(node, base, ren, m)
            if got == want:
                out.append(core.res(f'priming {kind} {name}', 'inconclusive', queries={r: 1}, solver_s=dt, sample=sample,
                                    detail='counterexample not reproduced on the real BDDs (export or harness error)'))
                return
            tab = family.model_params(m, params + mparams, bits)
            out.append(core.res(f'priming {kind} {name}', 'violation', queries={r: 1}, solver_s=dt, sample=sample,
                                nontrivial=True, functions=FUNCS, signature=f'priming:{name.split()[0]}',
                                detail=f'{name}: at the bit assignment {point} the result is {got}, the predicate read through '
                                       f'the renaming is {want} (replayed on the real BDDs without z3; predicate table '
                                       f'{"".join("1" if tab[p] else "0" for p in tab)[:64]}...)',
                                cex=dict(kind='priming', which=kind, op=name, values={k: bool(v) for k, v in tab.items()},
                                         point=point, got=got, want=want)))
        else:
            out.append(core.res(f'priming {kind} {name}', 'inconclusive', queries={r: 1}, solver_s=dt, sample=sample, detail=r))
    smp = dict(kind=kind, variables=decls[0], constants=decls[1], table_constants=len(params))
    mparams = []
    pu = prm.prime(u, aut)
    decide('prime', pu, u, ren_of(flex), smp)
    decide('unprime(prime)', prm.unprime(pu, aut), u, {}, smp)
    for sub in (['x'], ['y', 'z'], ['x', 'z']):
        r1 = aut.replace_with_primed(sub, u)
        decide(f'replace_with_primed {sub}', r1, u, ren_of(sub), smp)
        r2 = aut.replace_with_unprimed(sub, r1)
        decide(f'replace_with_unprimed {sub}', r2, u, {}, smp)
        r3 = aut.replace_with_unprimed([s for s in flex if s not in sub], pu)
        decide(f'replace_with_unprimed complement of {sub} in prime(u)', r3, u, ren_of(sub), smp)
    # mixed predicates: the same identifier primed and unprimed in one support (an action such as x' = x + 1)
    mixed = dict(bools=['x', "x'", "y'", 'z', 'k'], ints=["x'", 'y', "y'", 'k'], clash=['x', "x'", 'x_0', "y'", 'k'])[kind]
    mexpr = family.table(aut, 'm', mixed, mparams)
    aut.declare_constants(**{p: 'bool' for p in mparams})
    mu = aut.add_expr(mexpr)
    smp2 = dict(smp, over=mixed, table_constants=len(mparams))
    decide('unprime of an action over ' + ' '.join(mixed), prm.unprime(mu, aut), mu, ren_of(flex, False), smp2)
    # prime.rename_variables: x -> x2 renames x and x' together (siblings declared with the same types)
    for sub in (['x'], ['y'], ['x', 'y']):
        ren = {}
        for n in sub:
            for b, b2 in zip(link.bits_of(n, aut.vars[n]), link.bits_of(n + '2', aut.vars[n + '2'])):
                ren[b] = b2
                ren[b + "'"] = b2 + "'"
        # base bit b of `mu` is not read any more; the result reads b2 where mu read b: result(a) = mu(a with b := a[b2])
        decide(f'rename_variables {sub} -> siblings in an action',
               prm.rename_variables({n: n + '2' for n in sub}, mu, aut), mu, ren, smp2)
    for sub in (['x'], ['y'], ['y', 'z'], ['x', 'y']):
        decide(f'replace_with_unprimed {sub} in an action', aut.replace_with_unprimed(sub, mu), mu, ren_of(sub, False), smp2)
        decide(f'replace_with_primed {sub} in an action', aut.replace_with_primed(sub, mu), mu, ren_of(sub), smp2)
    # support classification on concrete members (Python-level results), solver decides dependence
    rnd = random.Random(11)
    for it in range(6):
        keep = rnd.sample(flex + list(decls[1]), rnd.randint(1, len(flex)))
        ex2 = family.table(aut, f'q{it}', keep, [])
        ps = []
        e2 = family.table(aut, f'r{it}', keep, ps)
        aut.declare_constants(**{p: 'bool' for p in ps})
        vals = {p: rnd.random() < 0.5 for p in ps}
        w = aut.let(vals, aut.add_expr(e2))
        primed_sub = [n for n in keep if n in flex and rnd.random() < 0.5]
        if primed_sub:
            w = aut.replace_with_primed(primed_sub, w)
        Wt = exp.export(w)

        def depends(name, primed):
            d = aut.vars[name]
            fs = []
            for bnm in link.bits_of(name, d, primed):
                bb = bits(bnm)
                fs.append(z3.substitute(Wt, (bb, z3.BoolVal(True))) != z3.substitute(Wt, (bb, z3.BoolVal(False))))
            s_ = z3.Solver()
            s_.add(z3.Or(fs))
            return str(s_.check()) == 'sat'
        dep_unprimed = {n for n in flex + list(decls[1]) if depends(n, False)}
        dep_primed = {n + "'" for n in flex if depends(n, True)}
        want = dict(
            rigid_support={n for n in dep_unprimed if n in decls[1]},
            flexible_support={n for n in dep_unprimed if n in flex},
            primed_support=dep_primed,
            unprimed_support=dep_unprimed,
            vars_in_support={n for n in dep_unprimed if n in flex} | {n[:-1] for n in dep_primed},
            is_state_predicate=not dep_primed,
            is_proper_action=bool(dep_primed) and bool(dep_unprimed),
            is_primed_state_predicate=not {n for n in dep_unprimed if n in flex},
            split_support=(dep_unprimed, dep_primed),
            is_action_of_x=dep_primed <= {"x'"}, is_action_of_yz=dep_primed <= {"y'", "z'"})
        aut.varlist.update(px=['x'], pyz=['y', 'z'])
        got = dict(
            split_support=tuple(prm.split_support(w, aut)),
            is_action_of_x=prm.is_action_of_player(w, 'px', aut), is_action_of_yz=prm.is_action_of_player(w, 'pyz', aut),
            rigid_support=prm.rigid_support(w, aut), flexible_support=prm.flexible_support(w, aut),
            primed_support=prm.primed_support(w, aut), unprimed_support=prm.unprimed_support(w, aut),
            vars_in_support=prm.vars_in_support(w, aut), is_state_predicate=prm.is_state_predicate(w),
            is_proper_action=prm.is_proper_action(w), is_primed_state_predicate=prm.is_primed_state_predicate(w, aut))
        bad = [k for k in want if want[k] != got[k]]
        nm = f'priming {kind} support classification #{it}'
        s2 = dict(smp, over=keep, primed=primed_sub)
        if bad:
            out.append(core.res(nm, 'violation', sample=s2, nontrivial=True, functions=FUNCS, signature=f'support:{bad[0]}',
                                detail=f'{bad[0]}: reported {got[bad[0]]}, dependence queries give {want[bad[0]]}',
                                cex=dict(kind='support', which=kind)))
        else:
            out.append(core.res(nm, 'holds', queries={'dependence-queries': len(flex) * 2 + len(decls[1])}, sample=s2,
                                nontrivial=w != aut.true and w != aut.false, functions=FUNCS))
    return out


def reclassification(hints):
    """History on one Automaton: an identifier declared as a constant, used and classified, is then declared as a
    variable with the same hint (omega accepts this; only the primed copy is new). From then on it is flexible:
    the support classification and `prime` must follow the declaration in force, not the first answer."""
    import z3
    import omega.symbolic.temporal as trl
    import omega.symbolic.prime as prm
    from vlib import bdd2smt, link
    out = []
    for hint in hints:
        name = f'reclassification of a constant as a variable, hint {hint}'
        sample = dict(hint=hint, predicate='(x + c) = 0')
        aut = trl.Automaton()
        aut.declare_variables(x=(0, 2))
        aut.declare_constants(c=hint)
        u = aut.add_expr('(x + c) = 0')
        exp = bdd2smt.Exporter(aut.bdd)
        bits = exp.bits
        q = {}
        problems = []

        def ren(term, names):
            sub = []
            for n in names:
                for b in link.bits_of(n, aut.vars[n]):
                    sub.append((bits(b), bits(b + "'")))
            return z3.substitute(term, *sub)

        def differs(a, b):
            sol = z3.Solver()
            sol.add(a != b)
            r = str(sol.check())
            q[r] = q.get(r, 0) + 1
            return r != 'unsat'
        try:
            U = exp.export(u)
            before = dict(rigid=prm.rigid_support(u, aut), flexible=prm.flexible_support(u, aut))
            if before != dict(rigid={'c'}, flexible={'x'}):
                problems.append(f'before the re-declaration: {before}')
            if differs(exp.export(prm.prime(u, aut)), ren(U, ['x'])):
                problems.append('before the re-declaration: prime(u) is not u with x primed')
            aut.declare_variables(c=hint)
            after = dict(rigid=prm.rigid_support(u, aut), flexible=prm.flexible_support(u, aut),
                         vars=prm.vars_in_support(u, aut))
            if after != dict(rigid=set(), flexible={'x', 'c'}, vars={'x', 'c'}):
                problems.append(f'after declaring c as a variable the classification is {after}')
            pu = prm.prime(u, aut)
            if differs(exp.export(pu), ren(U, ['x', 'c'])):
                problems.append('after declaring c as a variable prime(u) is not u with x and c primed')
            if differs(exp.export(prm.unprime(pu, aut)), U):
                problems.append('after declaring c as a variable unprime(prime(u)) differs from u')
        except Exception as e:  # noqa
            problems.append(f'raised {type(e).__name__}: {str(e)[:100]}')
        if problems:
            out.append(core.res(name, 'violation', queries=q, sample=sample, nontrivial=True, functions=FUNCS,
                                signature='reclassification', detail=f'hint {hint}: {problems[0]} ({len(problems)} problem(s))',
                                cex=dict(kind='reclass', hint=list(hint))))
        else:
            out.append(core.res(name, 'holds', queries=q, sample=sample, nontrivial=True, functions=FUNCS))
    return out


def replay(payload):
    c = payload['cex']
    if c['kind'] == 'core':
        import omega.logic.bitvector as bv
        import omega.symbolic._type_hints as tyh
        v = c['values']
        if c['which'] == '_clip_subrange':
            try:
                ra, rb = tyh._clip_subrange((v['a'], v['b']), (v['u'], v['w']), 'x')
            except AssertionError as e:
                return True, f'_clip_subrange raised AssertionError {e}'
            t = v.get('t', v['u'])
            inres = True if ra is None else (ra <= t <= rb)
            return inres != (v['a'] <= t <= v['b']), f'clip -> {(ra, rb)}, point {t}'
        lo, hi = v['lo'], v['hi']
        try:
            signed, width = bv.dom_to_width((lo, hi))
            lim = tyh._bitfield_limits(dict(signed=signed, width=width, dom=(lo, hi)))
        except AssertionError as e:
            return True, f'raised AssertionError {e}'
        want = (-2 ** (width - 1), 2 ** (width - 1) - 1) if signed else ((0, 2 ** width - 1) if lo >= 0 else (-2 ** width, -1))
        bad = (width < 1 or signed != (lo < 0 <= hi) or tuple(lim) != want or not (lim[0] <= lo and hi <= lim[1]))
        return bad, f'dom_to_width({lo},{hi}) = {(signed, width)}, limits {lim}'
    if c['kind'] == 'api':
        r = api_declarations([(c['lo'], c['hi'])], 0)
        return r[0]['status'] == 'violation', r[0]['detail']
    if c['kind'] == 'reclass':
        r = reclassification([tuple(c['hint'])])
        return r[0]['status'] == 'violation', r[0].get('detail') or 'conforms'
    if c['kind'] == 'priming':
        rs = priming_family(c['which'])
        bad = [r for r in rs if r['status'] == 'violation' and r['cex'].get('op') == c['op']]
        return bool(bad), (bad[0]['detail'] if bad else 'not reproduced')
    return False, 'support classification: re-run the check'


def run(tier, seed, t0, only=None):
    tasks = [dict(mod='vlib.props.c18', fn='arithmetic_core', kw={}, timeout=1800, name='py2smt:arithmetic-core')]
    win = 12 if tier == 'quick' else 40
    pairs = [(lo, hi) for lo in range(-win, win + 1) for hi in range(lo, win + 1)]
    rnd = random.Random(seed)
    pairs += [(lo, lo + rnd.randint(0, 300)) for lo in (rnd.randint(-300, 200) for _ in range(20 if tier == 'quick' else 200))]
    size = max(10, len(pairs) // 48)
    for i in range(0, len(pairs), size):
        for be in (['cudd'] if i % (4 * size) else ['cudd', 'autoref']):
            tasks.append(dict(mod='vlib.props.c18', fn='api_declarations', kw=dict(pairs=pairs[i:i + size], seed=seed + i),
                              backend=be, timeout=1800, name=f'{be}:api:{pairs[i]}..'))
    for be in ('cudd', 'autoref'):
        tasks.append(dict(mod='vlib.props.c18', fn='reclassification', kw=dict(hints=[(-2, 1), (0, 3), (-4, -1), (1, 2)]), backend=be,
                          timeout=600, name=f'{be}:reclassification'))
    for kind in ('bools', 'ints', 'clash'):
        for be in ('cudd', 'autoref'):
            tasks.append(dict(mod='vlib.props.c18', fn='priming_family', kw=dict(kind=kind), backend=be,
                              timeout=1800, name=f'{be}:priming:{kind}'))
    if only:
        tasks = [t for t in tasks if only in t['name']]
    results = core.run_tasks(tasks)
    return core.finish(
        PID, tier, seed, 'model_checking', results, t0, files=FILES,
        bounds=dict(arithmetic_core=f'all lo <= hi with |lo|,|hi| <= {B} (symbolic), bit_length / 2**n exact below 2^16',
                    api_window=f'every (lo, hi) with -{win} <= lo <= hi <= {win}, plus seeded wide hints',
                    priming='tables over 3 flexible identifiers and one rigid constant (Boolean; bool / -1..1 / -3..-1 / 0..2)'),
        rule='arithmetic core: one query per path of the translated functions; API: one obligation per declaration '
             '(8 z3 equivalences of re-read hint formulas / BDDs with lo <= x <= hi plus 4 implication checks); '
             'priming: one query per operation with the predicate table existential; support classification by '
             'dependence queries',
        assumptions=['z3 (linear integer arithmetic with ite ladders; QF_BV for the API part)',
                     'py2smt translator (Unsupported constructs are reported as inconclusive)',
                     'omega\'s parser is used only to re-read the printed hint formulas'],
        outside=['hints with magnitude >= 2^12 for the symbolic core', 'saturating / modwrap types other than "int"'])
