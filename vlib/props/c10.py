"""C10 — enumeration of minimal covers returns exactly all minimum covers by primes.

Per instance the real `cover_enum.minimize` runs; every returned cover is listed
into boxes.  Each must be a cover of F by maximal boxes (evaluated at every point),
all of the same size k, the single cover of `cover.minimize` must be among them, k
must be minimum (z3: no cover with k-1 boxes), and the set must be *complete*: z3
searches for k pairwise-distinct prime boxes (primality encoded on Int endpoints)
that cover F and whose set differs from every returned cover -> must be unsat.
Termination "without error": any exception is a violation.
"""
import itertools
import time

from vlib import core
from vlib.props import c09

PID = 'C10'
FILES = ['omega/symbolic/cover_enum.py', 'omega/symbolic/cover.py']
FUNCS = ['cover_enum.minimize', 'cover_enum._cyclic_core_fixpoint_recursive', 'cover_enum._traverse_exhaustive',
         'cover_enum._branch_exhaustive', 'cover_enum._enumerate_mincovers_below', 'cover_enum._below_and_suff',
         'cover_enum._enumerate_mincovers_unfloor', 'cover_enum._y_unfloor', 'cover_enum._pick_iter_as_bdd',
         'cover_enum._mincovers_from_floor', 'cover_enum._mincovers_from_unfloor', 'cover.minimize']


def _canon(boxes):
    return tuple(sorted(tuple(sorted(b.items())) for b in boxes))


def analyse(inst):
    """Real enumeration on one instance -> (status, detail, signature, info)"""
    import omega.symbolic.cover as cov
    import omega.symbolic.cover_enum as cove
    import omega.symbolic.orthotopes as lat
    from vlib import coverlib
    ctx, names, ranges, pts, f, care, desc = c09.build(inst)
    if f == ctx.false or care == ctx.false or (f == ctx.true and care == ctx.true):
        return None
    F = coverlib.truth_table(ctx, f, names, pts)
    CARE = coverlib.truth_table(ctx, care, names, pts)
    info = dict(desc=desc, names=names, ranges=ranges, pts=pts, F=F, CARE=CARE)
    t1 = time.time()
    try:
        covers = cove.minimize(f, care, ctx)
    except Exception as e:  # noqa
        import traceback
        tb = traceback.extract_tb(e.__traceback__)
        where = next((fr for fr in reversed(tb) if 'cover' in fr.filename), tb[-1])
        line = (where.line or '').strip()
        info['error'] = f'{type(e).__name__} at {where.name}:{where.lineno} `{line[:60]}`'
        return 'raise', f'cover_enum.minimize raised {info["error"]}', \
            f'enum:{type(e).__name__}@{where.name}:{line.split(",")[0][:70]}', info
    info['enum_s'] = time.time() - t1
    prm = lat.setup_aux_vars(f, care, ctx)
    lists = [coverlib.boxes_of_cover(c, prm, ctx) for c in covers]
    single = coverlib.boxes_of_cover(cov.minimize(f, care, ctx), prm, ctx)
    full = lambda bs: [dict({n: ranges[names.index(n)] for n in names}, **b) for b in bs]
    info.update(covers=[full(b) for b in lists], single=full(single))
    problems = []
    sizes = {len(b) for b in lists}
    if len(sizes) != 1:
        problems.append(f'returned covers have different sizes {sorted(sizes)}')
    for bs in lists:
        ps = coverlib.check_cover(full(bs), names, ranges, pts, F, CARE)
        if ps:
            problems.append(f'returned cover {bs[:3]}: {ps[0]}')
            break
    if len({_canon(full(b)) for b in lists}) != len(lists):
        problems.append('the same cover is returned twice')
    if _canon(full(single)) not in {_canon(full(b)) for b in lists}:
        problems.append(f'the cover of cover.minimize {single[:3]} is not among the {len(lists)} enumerated covers')
    info['problems'] = problems
    return ('bad' if problems else 'ok'), (problems[0] if problems else ''), 'enum:' + (problems[0].split(' ')[0] if problems else ''), info


def check_instances(instances):
    from vlib import coverlib
    out = []
    for inst in instances:
        r = analyse(inst)
        if r is None:
            continue
        status, detail, sig, info = r
        desc = info['desc']
        name = f'enumerate {inst["decl"]} {desc[:80]}'
        sample = dict(decl=c09.DECLS[inst['decl']], instance=desc[:300])
        if status == 'raise':
            out.append(core.res(name, 'violation', sample=sample, nontrivial=True, functions=FUNCS, signature=sig,
                                detail=f'{detail} on {desc[:160]}', cex=dict(inst=inst, kind='raise')))
            continue
        names, ranges, pts, F, CARE = info['names'], info['ranges'], info['pts'], info['F'], info['CARE']
        covers = info['covers']
        k = len(covers[0])
        sample.update(covers=len(covers), size=k, enum_s=round(info['enum_s'], 3), first=covers[0][:4])
        q = {}
        t1 = time.time()
        problems = list(info['problems'])
        r1, smaller = ('skipped', None) if k - 1 >= 7 else \
            coverlib.smaller_cover_exists(k - 1, names, ranges, pts, F, CARE, timeout_ms=20000)
        if r1 not in ('sat', 'unsat'):
            r1, smaller = coverlib.smaller_cover_exists_setcover(k - 1, names, ranges, pts, F, CARE)
        q['minimum:' + r1] = 1
        if r1 == 'sat':
            problems.append(f'a cover with {k - 1} boxes exists: {smaller}')
        r2, other = ('unsat', None)
        if not problems:
            if k >= 7:
                r2, other = 'skipped', None
            else:
                r2, other = coverlib.other_min_cover_exists(k, covers, names, ranges, pts, F, CARE, timeout_ms=20000)
            if r2 not in ('sat', 'unsat'):
                # same question as a selection problem over the explicitly enumerated maximal boxes
                r2, other = coverlib.other_min_cover_exists_setcover(k, covers, names, ranges, pts, F, CARE)
            q['complete:' + r2] = 1
            if r2 == 'sat':
                ps = coverlib.check_cover(other, names, ranges, pts, F, CARE)
                if ps:
                    out.append(core.res(name, 'inconclusive', queries=q, solver_s=time.time() - t1, sample=sample,
                                        detail=f'solver witness is not a prime cover: {ps[0]}'))
                    continue
                problems.append(f'minimum cover by primes {other} is missing from the {len(covers)} returned')
        dt = time.time() - t1
        if 'unknown' in (r1, r2):
            out.append(core.res(name, 'inconclusive', queries=q, solver_s=dt, sample=sample, detail='solver unknown'))
        elif problems:
            kind = 'missing-cover' if 'is missing' in problems[-1] else ('not-minimum' if 'a cover with' in problems[-1] else 'bad-cover')
            out.append(core.res(name, 'violation', queries=q, solver_s=dt, sample=sample, nontrivial=True, functions=FUNCS,
                                signature=f'enum:{kind}', detail=f'{desc[:160]}: {problems[-1]}',
                                cex=dict(inst=inst, kind=kind, witness=other or smaller)))
        else:
            out.append(core.res(name, 'holds', queries=q, solver_s=dt, sample=sample, nontrivial=len(covers) >= 2 or k >= 2,
                                functions=FUNCS, extra=dict(multi=len(covers) >= 2)))
    return out


def check_to_expr(instances):
    """`cover_enum.to_expr(fol, u, care)`: one DNF per minimum cover, each equivalent to the predicate on the care set.

    The strings are re-read with omega's parser into `sem` trees; z3 decides CARE => (U <=> DNF) on the exported BDDs for
    all assignments within the bit ranges; the number of DNFs equals the number of enumerated covers and no two are
    equivalent as sets of disjunct strings."""
    import z3
    import omega.logic.lexyacc as lexyacc
    import omega.symbolic.cover_enum as cove
    from vlib import bdd2smt, link, sem
    parser = lexyacc.Parser()
    out = []
    for inst in instances:
        ctx, names, ranges, pts, f, care, desc = c09.build(inst)
        if f == ctx.false or care == ctx.false or (f == ctx.true and care == ctx.true):
            continue
        name = f'to_expr (all minimal DNFs) {inst["decl"]} {desc[:70]}'
        sample = dict(decl=c09.DECLS[inst['decl']], instance=desc[:300])
        t1 = time.time()
        try:
            dnfs = cove.to_expr(ctx, f, care=care)
            covers = cove.minimize(f, care, ctx)
        except Exception as e:  # noqa
            import traceback
            tb = traceback.extract_tb(e.__traceback__)
            where = next((fr for fr in reversed(tb) if 'cover' in fr.filename), tb[-1])
            line = (where.line or '').strip()
            out.append(core.res(name, 'violation', sample=sample, nontrivial=True, functions=FUNCS,
                                signature=f'enum:{type(e).__name__}@{where.name}:{line.split(",")[0][:70]}',
                                detail=f'cover_enum.to_expr raised {type(e).__name__} at {where.name}:{where.lineno} `{line[:60]}` on {desc[:160]}',
                                cex=dict(inst=inst, kind='raise-to_expr')))
            continue
        exp = bdd2smt.Exporter(ctx.bdd)
        bits = exp.bits
        U, CARE = exp.export(f), exp.export(care)
        table = {n: ctx.vars[n] for n in names}
        env = sem.Env(table, bits)
        q = {}
        problems = []
        if len(dnfs) != len(covers):
            problems.append(f'{len(dnfs)} formulas for {len(covers)} minimum covers')
        keys = set()
        for s_ in dnfs:
            text = s_.replace('care expression', 'TRUE')
            try:
                G = sem.to_z3(sem.from_omega(parser.parse(text), table), env)[0]
            except Exception as e:  # noqa
                problems.append(f'formula {s_[-120:]!r} is not accepted by the parser: {type(e).__name__}: {str(e)[:60]}')
                continue
            sol = z3.Solver()
            sol.set('timeout', 60000)
            sol.add(CARE, z3.Xor(U, G))
            r = str(sol.check())
            q[r] = q.get(r, 0) + 1
            if r == 'sat':
                problems.append(f'formula {s_[-120:]!r} differs from the predicate at care point {link.model_values(sol.model(), table, bits)}')
            elif r != 'unsat':
                problems.append('unknown')
            keys.add(' '.join(s_.split()))
        if len(keys) != len(dnfs):
            problems.append('the same formula is returned twice')
        dt = time.time() - t1
        sample.update(formulas=len(dnfs), first=(dnfs[0][-200:] if dnfs else ''))
        if not problems:
            out.append(core.res(name, 'holds', queries=q, solver_s=dt, sample=sample, nontrivial=len(dnfs) >= 2, functions=FUNCS,
                                extra=dict(multi=len(dnfs) >= 2)))
        elif problems == ['unknown']:
            out.append(core.res(name, 'inconclusive', queries=q, solver_s=dt, sample=sample, detail='solver unknown'))
        else:
            ok, why = replay(dict(cex=dict(inst=inst, kind='to_expr')))
            out.append(core.res(name, 'violation' if ok else 'inconclusive', queries=q, solver_s=dt, sample=sample, nontrivial=True,
                                functions=FUNCS, signature='enum-to_expr:' + problems[0].split(' ')[0],
                                detail=f'{desc[:160]}: {problems[0]}; replay: {why}', cex=dict(inst=inst, kind='to_expr')))
    return out


def replay_to_expr(inst):
    """No z3: every formula evaluated at every domain point with sem.eval_py against truth tables read by Context.let."""
    import omega.logic.lexyacc as lexyacc
    import omega.symbolic.cover_enum as cove
    from vlib import coverlib, sem
    ctx, names, ranges, pts, f, care, desc = c09.build(inst)
    try:
        dnfs = cove.to_expr(ctx, f, care=care)
        covers = cove.minimize(f, care, ctx)
    except Exception as e:  # noqa
        return True, f'raised {type(e).__name__}: {e}'
    if len(dnfs) != len(covers) or len({' '.join(s_.split()) for s_ in dnfs}) != len(dnfs):
        return True, f'{len(dnfs)} formulas ({len(set(dnfs))} distinct) for {len(covers)} covers'
    F = coverlib.truth_table(ctx, f, names, pts)
    CARE = coverlib.truth_table(ctx, care, names, pts)
    table = {n: ctx.vars[n] for n in names}
    parser = lexyacc.Parser()
    for s_ in dnfs:
        tree = sem.from_omega(parser.parse(s_.replace('care expression', 'TRUE')), table)
        for p_ in pts:
            if CARE[p_] and bool(sem.eval_py(tree, table, dict(zip(names, p_)))) != bool(F[p_]):
                return True, f'formula {s_[-100:]!r} is {not F[p_]} at {dict(zip(names, p_))}, the predicate is {F[p_]}'
    return False, 'all formulas agree with the predicate on the care set'


def replay(payload):
    from vlib import coverlib
    c = payload['cex']
    if c.get('kind') in ('to_expr', 'raise-to_expr'):
        return replay_to_expr(c['inst'])
    r = analyse(c['inst'])
    if r is None:
        return False, 'instance refused by preconditions'
    status, detail, sig, info = r
    if status == 'raise':
        return True, detail
    if status == 'bad':
        return True, detail
    names, ranges, pts, F, CARE = info['names'], info['ranges'], info['pts'], info['F'], info['CARE']
    w = c.get('witness')
    if w:
        w = [{n: tuple(v) for n, v in b.items()} for b in w]
        ps = coverlib.check_cover(w, names, ranges, pts, F, CARE)
        if c['kind'] == 'not-minimum':
            ps = [p for p in ps if 'not maximal' not in p]
            return (not ps and len(w) < len(info['covers'][0])), f'witness cover with {len(w)} boxes vs {len(info["covers"][0])} returned'
        if not ps and len(w) == len(info['covers'][0]) and _canon(w) not in {_canon(b) for b in info['covers']}:
            return True, f'prime cover {w} of minimum size is not returned'
    return False, 'enumeration is complete on this instance'


# two five-variable functions whose enumeration branches in nested nodes (delivered with a seeded change that only such
# instances expose); every coordinate permutation gives another branching order
_NESTED = [
    [(0, 0, 0, 0, 0), (0, 0, 0, 1, 0), (0, 0, 1, 0, 0), (0, 0, 1, 1, 0), (0, 1, 0, 1, 0), (0, 1, 0, 1, 1), (0, 1, 1, 0, 0),
     (0, 1, 1, 0, 1), (0, 1, 1, 1, 0), (0, 1, 1, 1, 1), (1, 0, 0, 0, 0), (1, 0, 0, 0, 1), (1, 0, 0, 1, 0), (1, 0, 0, 1, 1),
     (1, 0, 1, 0, 0), (1, 0, 1, 0, 1), (1, 1, 0, 0, 1), (1, 1, 0, 1, 1), (1, 1, 1, 0, 1), (1, 1, 1, 1, 1)],
    [(0, 0, 0, 0, 1), (0, 0, 0, 1, 0), (0, 0, 1, 0, 0), (0, 0, 1, 0, 1), (0, 0, 1, 1, 0), (0, 0, 1, 1, 1), (0, 1, 0, 0, 0),
     (0, 1, 0, 0, 1), (0, 1, 0, 1, 0), (0, 1, 0, 1, 1), (0, 1, 1, 0, 0), (0, 1, 1, 1, 0), (0, 1, 1, 1, 1), (1, 0, 0, 0, 0),
     (1, 0, 0, 0, 1), (1, 0, 0, 1, 0), (1, 0, 0, 1, 1), (1, 0, 1, 0, 0), (1, 0, 1, 0, 1), (1, 1, 0, 0, 1), (1, 1, 0, 1, 0),
     (1, 1, 0, 1, 1), (1, 1, 1, 0, 0), (1, 1, 1, 0, 1), (1, 1, 1, 1, 1)],
]


def nested_instances(step):
    pts = list(itertools.product([0, 1], repeat=5))          # order of coverlib.domain for five 0..1 variables
    idx = {p_: i for i, p_ in enumerate(pts)}
    out = []
    for S in _NESTED:
        for perm in list(itertools.permutations(range(5)))[::step]:
            m = 0
            for p_ in S:
                m |= 1 << idx[tuple(p_[perm[i]] for i in range(5))]
            out.append(c09.instance('mask', 'b5', (m, None)))
    return out


def run(tier, seed, t0, only=None):
    insts = c09.instances_for(tier, seed + 1)
    five = [i for i in insts if i['decl'] == 'b5']
    insts = [i for i in insts if i['decl'] != 'b5']
    grid64 = [i for i in insts if i['kind'] == 'mask' and i['decl'] in ('g333', 'm')]
    insts = [i for i in insts if not (i['kind'] == 'mask' and i['decl'] in ('g333', 'm'))]
    if tier == 'quick':
        insts = insts[::2] + five[:200] + grid64 + nested_instances(4)
    else:
        insts = insts + five[:4000] + grid64 + nested_instances(1)
    size = 30 if tier == 'quick' else 200
    tasks = []
    for i in range(0, len(insts), size):
        tasks.append(dict(mod='vlib.props.c10', fn='check_instances', kw=dict(instances=insts[i:i + size]), timeout=3000,
                          name=f'instances[{i}]'))
    for i in range(0, min(len(insts), 3 * size), size):
        tasks.append(dict(mod='vlib.props.c10', fn='check_instances', kw=dict(instances=insts[i:i + size][::4]),
                          backend='autoref', timeout=3000, name=f'autoref:instances[{i}]'))
    small = [i for i in insts if i['decl'] in ('b3', 'g44', 's', 'n')]
    small = small[::3] if tier == 'quick' else small
    for i in range(0, len(small), size):
        tasks.append(dict(mod='vlib.props.c10', fn='check_to_expr', kw=dict(instances=small[i:i + size]), timeout=3000,
                          name=f'to_expr[{i}]'))
    if only:
        tasks = [t for t in tasks if only in t['name']]
    results = core.run_tasks(tasks)
    multi = sum(1 for r in results if r['extra'].get('multi'))
    return core.finish(
        PID, tier, seed, 'model_checking', results, t0, files=FILES,
        bounds=dict(instances=len(insts), domains=c09.DECLS, max_domain_points=64,
                    instances_with_several_minimum_covers=multi),
        rule='one obligation per (predicate, care set): no exception; every returned cover is a prime cover of one size; '
             'cover.minimize\'s cover is a member; z3: no cover with k-1 boxes; z3: no k distinct prime boxes covering F '
             'whose set differs from every returned cover. Non-trivial = k >= 2 or several covers',
        assumptions=['z3 (linear integer arithmetic)', 'truth tables of F and CARE read with Context.let'],
        outside=['domains above 64 points'])
