#!/usr/bin/env python3
"""Regenerate /verif/MANIFEST.json from the table below (python3 tools/mkmanifest.py)."""
import json
import os

HERE = os.path.dirname(os.path.dirname(os.path.abspath(__file__)))

# pid -> (category, technique, text, note, design_ref)
CLAIMED = {
    'C06': ('model_checking',
            'SMT equivalence (z3 QF_BV) of the bitblasted circuit and of the exported BDD with a 64-bit bit-vector reference semantics; counterexamples replayed through Context.let',
            'Bounded solver check: for each (declaration, formula shape) of a grid over operators x operand widths/sign shapes, one shape per documented construct and seeded random trees, z3 proves that the prefix formula emitted by bitvector.bitblast and the BDD built by Context.add_expr agree with an independent integer/Boolean semantics for every bit value. Shapes are enumerated, assignments are decided by the solver.',
            'Trusted: z3, dd node accessors, the two\'s-complement link stated in the property. Bounds: operand widths 1..5 (thorough 1..7) bits, depth <= 3, intermediate widths < 28 bits; divisors assumed non-zero.',
            'DESIGN.md §3 C06'),
}

FAMILY_NOTE = ('Trusted: z3, dd node accessors, the argument that a rigid-table family run is pointwise the run of '
               'each member (DESIGN.md 2.4; it does not cover loop termination, so seeded members are also run one by '
               'one through the real code and compared with the explicit solvers), the explicit unrolled reference '
               '(validated on every run against an independent Zielonka parity / reachability / safety solver on seeded '
               'concrete games). Bounds: table families of 2 state bits (3 for one-step operators), 1-2 goals/holds '
               '(3 goals per member), integer template families with rigid integer constants, unrolling |states|+2.')
CLAIMED.update({
    'C01': ('model_checking',
            'one real run of gr1.solve_streett_game on a rigid-table game family; z3 equivalence of the exported winning-region BDD with an unrolled explicit-state mu-calculus reference, for all games of the family and all states; counterexample members replayed against a Zielonka solver',
            'Bounded solver check over whole families of games (2^20..2^44 games per run): truth tables of both actions and of the liveness predicates are rigid constants, so the BDD returned by the real solver is a function of (state, game); z3 shows it equal to the reference at every explicit state, in all four modes, on dd.cudd and dd.autoref.',
            FAMILY_NOTE, 'DESIGN.md §3 C01'),
    'C04': ('model_checking',
            'as C01 for gr1.solve_rabin_game; plus oracle-free duality: z3 shows the exported Streett region of a game family and the exported Rabin region of the dual family (solved in a separate BDD manager) complementary for all games and states; trivial_winning_set against composed references',
            'Bounded solver check over game families: Rabin(1) region vs unrolled reference; Streett/Rabin determinacy decided by the solver on two independent exports; all four modes.',
            FAMILY_NOTE, 'DESIGN.md §3 C04'),
    'C11': ('model_checking',
            'one real run of fixpoint.step/attractor/trap/ee_image/descendants per (family, mode) with table-defined actions and predicates; z3 equivalence of the exported result with an explicit-state reference for all members and states; closure facts of descendants as direct queries',
            'Bounded solver check over families of relations and predicates (all actions over the listed bits, including ones reading the opponent\'s primed variables; Boolean and small signed/negative integer variables over their whole bit range).',
            FAMILY_NOTE + ' attractor(inside=) is claimed for targets within `inside`.', 'DESIGN.md §3 C11'),
})

TRANS_NOTE = ('Trusted: z3, dd node accessors, family = member pointwise (self-checked on seeded members in each run; '
              'seeded members with up to 3 goals / 2 persistence predicates are also constructed one by one and checked by '
              'enumeration). Bounds: 2-state-bit table families, 1-2 goals/holds, EnvInit := Win with qinit \\A \\A (every '
              'winning state initial); product spaces <= 32 explicit states for the fair-cycle query. Rabin(1): one-step '
              'obligations are stated on the exact set of reachable product states.')
CLAIMED.update({
    'C02': ('model_checking',
            'real gr1.make_streett_transducer run once per rigid-table game family; z3 discharges init / safety / closure / non-blocking / semantic Moore-independence one-step obligations and an unrolled Emerson-Lei fair-cycle query on explicit product states, all table constants existential; counterexample members rebuilt and checked by enumeration',
            'Bounded solver check of the closed loop for every game of a family at once (2^20..2^44 games), every product state, every environment move and every resolution of the implementation\'s nondeterminism; liveness is decided exactly (no reachable violating cycle), not by a ranking certificate.',
            TRANS_NOTE, 'DESIGN.md §3 C02'),
    'C05': ('model_checking',
            'as C02 for gr1.make_rabin_transducer with memory (_hold, _goal) and the Rabin acceptance in the fair-cycle query; closed-system two-goal shapes B02g2 / B02g2h2 (exact liveness of the family, per-member runs)',
            'Bounded solver check of the Rabin(1) closed loop over game families, four modes; found (and, after the fix, re-proves absent) the blocking defect with plus_one=True.',
            TRANS_NOTE, 'DESIGN.md §3 C05'),
})

CLAIMED.update({
    'C03': ('model_checking',
            'gr1._make_init run on rigid-table predicate families and its exported result compared by z3 with the documented formula per qinit form; gr1.is_realizable per predicate triple against z3 validity of the documented quantified formula (exhaustive over two Boolean variables, seeded over integers); constructors run on seeded games for all forms and modes',
            'Bounded solver check: the synthesized initial condition for all (EnvInit, SysInit, Win) triples of a shape at once; the Boolean verdict per instance with the solver deciding the quantified formula over the bits that refine the variables; construction succeeds exactly when verdict and non-empty region say so.',
            'Trusted: z3 (QBF over <= 6 bits), dd node accessors. Win is an arbitrary predicate here; exactness of the region is C01/C04. Bounds: two variables (bool/bool, 0..2/-1..1, -2..-1/bool), one memory variable.',
            'DESIGN.md §3 C03'),
})

CLAIMED.update({
    'C07': ('model_checking',
            'each fol.Context operation run for real on seeded predicates; z3 decides, for all assignments of the remaining identifiers, that the exported result equals the set-level operation on the exported operand (let values enumerated over the bit range, quantifiers by finite expansion, support by dependence queries, pick_iter completeness as a solver query); CrossHair confirms the integer<->bit kernels over all partial bit lists',
            'Bounded solver check per (predicate, operation): substitution, renaming, composition, quantification, support, enumeration/count/pick, cubes, Boolean combination and copying between contexts, on both back ends, over Boolean / unsigned / signed / all-negative / singleton identifiers.',
            'Trusted: z3, CrossHair, dd node accessors, link. Bounds: identifiers of 1-4 bits, predicates of depth <= 2, 4 declarations; CrossHair kernels for bit lists of length <= 4 and |values| <= 70. For care_vars that are a strict subset of the support the yielded (partial) assignments are read as disjoint cubes.',
            'DESIGN.md §3 C07'),
})

CLAIMED.update({
    'C18': ('model_checking',
            'dom_to_width / _bitfield_limits / _clip_subrange translated from their Python source to z3 (own path-enumerating AST translator) and proved for symbolic lo <= hi, |.| < 2^12; hint formulas printed by the API re-read and compared with lo <= x <= hi by z3 per declaration; prime / unprime / replace_with_* on rigid-table predicate families (state predicates and actions with a variable and its primed copy in one support) vs bit substitution, sat answers replayed on the real BDDs; support classification vs dependence queries',
            'Bounded solver check: the arithmetic core for ~2^24 declarations in a handful of queries; the public hint API for every (lo, hi) of a window; priming for all predicates of a shape at once with a rigid constant in the support.',
            'Trusted: z3, the py2smt translator (unsupported syntax => inconclusive), dd node accessors, omega\'s parser for re-reading printed hints. Bounds: |lo|,|hi| < 2^12 symbolic, window [-12,12] (thorough [-40,40]) through the API, 3 flexible identifiers + 1 constant for priming.',
            'DESIGN.md §3 C18'),
})

CLAIMED.update({
    'C13': ('translation_validation',
            'the emitted straight-line latch code (Python and C syntax) is read into z3 and compared with the exported BDD roots for all inputs; for whole programs compute_bdds is composed into the relation and z3 checks (exists out. R) => R[out := code(state)] for all state bits; CrossHair decides the integer<->bit glue; each program is also executed for real',
            'Per-program validation with the solver quantifying over every input state: seeded relations over signed / unsigned / all-negative integers and Booleans.',
            'Trusted: z3, the expression reader for emitted code, CrossHair, dd node accessors. Bounds: identifiers of 1-4 bits, 1-2 output variables, relations of depth <= 2; C target only read structurally.',
            'DESIGN.md §3 C13'),
    'C14': ('model_checking',
            'functions.make_functions run for real on seeded relations and every subset of output bits; z3 decides independence (dependence queries), membership ((exists out. R) => R[y := g_y]) and care-set containment/value agreement for all inputs; both the dd.cudd.restrict path and the fall-back path',
            'Bounded solver check per (relation, output subset), all inputs symbolic.',
            'Trusted: z3, dd node accessors. Bounds: relations over <= 10 bits, <= 4 candidate output bits. Care sets: containment of the forced inputs and value agreement (see DESIGN.md C14).',
            'DESIGN.md §3 C14'),
})

CLAIMED.update({
    'C15': ('model_checking',
            'the whole trace is symbolic (z3 Bool per variable / auxiliary variable and position); init, trans and the translated formula returned by past.translate are re-read and evaluated position-wise; z3 decides agreement with a direct past-LTL recursion at every position, uniqueness of the auxiliary trace, and existence (QBF); with until=True on lassos with a symbolic loop point and the win conditions as fairness',
            'Bounded solver check over all traces of a length bound for every formula of depth 1 and seeded formulas of depth 2-3 over two variables.',
            'Trusted: z3 (incl. small QBF), omega\'s parser for re-reading translate\'s strings. Bounds: 2 variables, trace length 6 (thorough 8), lassos of length 4 (6); future and past operators are not mixed under until=True.',
            'DESIGN.md §3 C15'),
})

COVER_NOTE = ('Trusted: z3, Context.let for reading the truth tables of the inputs. Bounds: domains of at most 64 points '
              '(1-4 integer variables of 1-3 bits, non-negative / sign-crossing / all-negative hints), exhaustive over all '
              'Boolean functions of three two-valued variables (thorough: four).')
CLAIMED.update({
    'C08': ('model_checking',
            'Context.to_expr run for real per (predicate, care set, options); the printed string is re-parsed and interpreted over integers by an independent evaluator; z3 decides equivalence on the care set for every integer point and, per listed disjunct, non-emptiness, no care point outside the predicate, and coverage',
            'Bounded solver check per printed formula, all integer points of the bit ranges symbolic; five printing-option combinations.',
            COVER_NOTE + ' The placeholder line `care expression` is read as TRUE on the care set.', 'DESIGN.md §3 C08'),
    'C09': ('model_checking',
            'cover.minimize run for real per (predicate, care set); returned boxes checked at every domain point (implicant, one-step maximal, covering) and minimality decided by z3 as a search over all alternative covers: k-1 boxes with Int endpoints avoiding CARE /\\ ~F and containing F must be unsat',
            'Bounded solver check: minimality is a quantification over all covers, discharged by the solver independently of the lattice encoding the algorithm and its own assertions use.',
            COVER_NOTE, 'DESIGN.md §3 C09'),
    'C10': ('model_checking',
            'cover_enum.minimize run for real; per returned cover the C09 facts; z3 decides minimality (no k-1 cover) and completeness (no k pairwise-distinct prime boxes, primality encoded on Int endpoints, covering F whose set differs from every returned cover); any exception is a violation',
            'Bounded solver check of exactness of a set of sets; the internal AssertionError of the lifting step is a recorded known finding (two call sites).',
            COVER_NOTE, 'DESIGN.md §3 C10'),
})

CLAIMED.update({
    'C20': ('model_checking',
            'logicizer.graph_to_logic run for real on seeded labelled graphs; an oracle built from the graph (edges, labels as independent expression trees) is compared by z3 with the exported action / initial condition for every pair of valuations with a node value in the graph (each node identifier must be a value of the node variable as declared); families with edge presence and label constants as rigid constants cover all sub-multigraphs on 2-3 nodes in one run',
            'Bounded solver check per graph and per family of graphs: all valuations of the node variable, labelled variables and primed copies symbolic.',
            'Trusted: z3, dd node accessors. Bounds: graphs of 2-5 nodes, variables of 1-3 bits, labels of depth <= 2; receptiveness assumptions only checked for absence when not requested.',
            'DESIGN.md §3 C20'),
})

CLAIMED.update({
    'C12': ('translation_validation',
            'each graph produced by games.enumeration.action_to_steps is validated against the exported symbolic actions: edges by evaluation, input-completeness per node and completeness of the initial set per qinit form as z3 queries over the exported environment action / initial conditions (all next environment values symbolic), liveness of the concrete graph by cycle analysis; enumerate_state_machine graphs of seeded guarded-command machines validated the same way (initial set, successor completeness per node, edges)',
            'Per-artefact validation; the solver supplies the "for each next environment value" and initial-set quantifiers (integer inputs of 2-3 bits), the graph itself is concrete.',
            'Trusted: z3, dd node accessors; the implementations come from the real constructors (C02/C05). Bounds: S11/B11a members and small integer games; environment actions that do not read next component values.',
            'DESIGN.md §3 C12'),
})

CLAIMED.update({
    'C19': ('model_checking',
            'CrossHair (symbolic strings) on the name-mangling kernels behind steps.Assembly: local->global->local round trip, no collision of mangled hidden names, a component sees only its own hidden variables; AutomatonStepper.init/step called at every product state of seeded synthesized implementations with enabledness decided by z3 on the exported action; two-component assemblies simulated and every recorded step evaluated on both exported actions',
            'Partly reachable, scope as written: the string kernels are decided symbolically; stepper conformance is enumeration with a solver-made oracle (all <= 2^8 product states per implementation); assemblies are bounded simulations.',
            'Trusted: CrossHair, z3, dd node accessors. Bounds: names over {a,b} of length <= 2 without underscores, hidden names of length <= 3; implementations from the C12 instance set; assemblies of an environment component and a Moore implementation for 12 (thorough 40) steps.',
            'DESIGN.md §3 C19'),
})

CLAIMED.update({
    'C17': ('model_checking',
            'pairs of exports compared by z3 for all assignments: same formula on dd.cudd vs dd.autoref, recursive vs iterative prefix translator vs an independent reader, and every BDD obtained earlier re-exported after each operation of an enumerated history (declare, add, quantify, substitute, print as formula, reorder, collect, copy, synthesize, repeat, relabel, operator definitions in a copy, attempted re-declaration, node references in formulas); str(automaton) lines re-read and compared with the BDD they label',
            'Histories are enumerated (all sequences of length <= 3 over a 15-operation alphabet, seeded longer ones); the solver quantifies over assignments, not over histories -- stated plainly.',
            'Trusted: z3, dd node accessors; dd reordering / garbage collection are exercised, not verified. Reuse of a collected node identifier is only met opportunistically.',
            'DESIGN.md §3 C17'),
})

NOT_APPLICABLE = {
    'C16': 'Parser/precedence/round-trip: PLY regex lexer + table-driven LALR driver over token sequences; no arithmetic or bit-level state for a solver to range over. CrossHair on lexyacc.Parser.parse with symbolic strings (len <= 3) answers "Unable to meet precondition" after 90 s. C06 checks the meaning of a fixed list of unparenthesised shapes against the documented precedence table; the quantifier over token sequences stays outside. See DESIGN.md §5.',
}

PENDING = 'check not built yet in this round (planned, see DESIGN.md §3); not claimed until its command exists'

ALL = ['C%02d' % i for i in range(1, 21)]


def main():
    checks = []
    for pid in ALL:
        if pid not in CLAIMED:
            continue
        cat, tech, text, note, ref = CLAIMED[pid]
        checks.append(dict(
            property_id=pid,
            quick_cmd=f'./check {pid} --tier quick',
            thorough_cmd=f'./check {pid} --tier thorough',
            evidence_file=f'/verif/evidence/{pid}.json',
            replay_cmd_template=f'./check {pid} --replay {{path}}',
            engine='z3',
            level_claimed=dict(category=cat, text=text, design_ref=ref),
            level_note=note,
            technique=tech))
    na = []
    for pid in ALL:
        if pid in CLAIMED:
            continue
        na.append(dict(property_id=pid, reason=NOT_APPLICABLE.get(pid, PENDING)))
    m = dict(
        version=1,
        setup_cmd='sh ./setup.sh',
        hooks=dict(guard='OMEGA_VERIF', enable='no source hooks: checks import omega from /repo\'s working tree as it is; ./check exports OMEGA_VERIF=1 (unused by omega)',
                   baseline_off_cmd='cd /repo && /venv/bin/python -m pytest -ra -q -p no:cacheprovider --timeout=900 --continue-on-collection-errors',
                   source_commits=[], add_only=True),
        engines=[dict(name='z3', path='/verif/.venv (z3-solver 5.1.0 wheel)', serves_properties=sorted(CLAIMED),
                      kind_free_text='SMT solver deciding exported BDDs / bitblasted circuits / unrolled references'),
                 dict(name='crosshair', path='/verif/.venv (crosshair-tool 0.0.110)', serves_properties=[p for p in ('C07', 'C13', 'C18', 'C19') if p in CLAIMED],
                      kind_free_text='symbolic execution of pure-Python kernels')],
        checks=checks,
        notes='Solver-based checking of the real code; see DESIGN.md. Exit codes: 0 held, 1 VIOLATION (replayed on the real code), 2 inconclusive/harness error (never reported as success).',
        not_applicable=na)
    with open(os.path.join(HERE, 'MANIFEST.json'), 'w') as f:
        json.dump(m, f, indent=1)
    print('claimed', sorted(CLAIMED), 'not_applicable', len(na))


if __name__ == '__main__':
    main()
