"""C01 — Streett(1) winning region is exact (family level, all games of a shape).

One real run of `gr1.solve_streett_game` on a rigid-table family; z3 proves the
exported region equal to the unrolled explicit-state reference for every game
of the family and every state.  Counterexamples are replayed: the member is
instantiated (constants substituted), solved by the real solver and by the
independent Zielonka solver of `vlib.xplay`.
"""
import os
import itertools
import time

from vlib import core

PID = 'C01'
FILES = ['omega/games/gr1.py', 'omega/symbolic/fixpoint.py', 'omega/symbolic/prime.py',
         'omega/symbolic/temporal.py', 'omega/symbolic/fol.py']
FUNCS = ['gr1.solve_streett_game', 'gr1._attractor_under_assumptions', 'fixpoint.step',
         'fixpoint.trap', 'prime.prime', 'fol.Context.let/exist/forall',
         'temporal.Automaton.declare_variables/declare_constants/prime_varlists']
MODES = list(itertools.product([True, False], repeat=2))
SOLVER_MS = 900000 * int(os.environ.get('VERIF_Z3_SCALE', '1'))


def concrete_member(aut, values):
    """Substitute constants by `values` in the game of `aut` (real code: Context.let)."""
    aut.action['env'] = aut.let(values, aut.action['env'])
    aut.action['sys'] = aut.let(values, aut.action['sys'])
    aut.win['[]<>'] = [aut.let(values, g) for g in aut.win['[]<>']]
    aut.win['<>[]'] = [aut.let(values, h) for h in aut.win['<>[]']]
    aut.init['env'] = aut.let(values, aut.init['env'])
    aut.init['sys'] = aut.let(values, aut.init['sys'])


def concrete_tables(aut, ex):
    """Concrete explicit game read off the (constant-free) BDDs with Context.let."""
    names = ex.env_vars + ex.sys_vars

    def truth(u, s, nxt=None):
        d = dict(ex.state_values(s))
        if nxt is not None:
            for k, v in ex.state_values(nxt).items():
                d[k + "'"] = v
        sup = aut.support(u)
        d = {k: v for k, v in d.items() if k in sup}
        r = aut.let(d, u) if d else u
        assert r == aut.true or r == aut.false, 'member not concrete'
        return r == aut.true
    E, S = {}, {}
    for s in ex.S:
        for xp in ex.X:
            for yp in ex.Y:
                E[s, xp, yp] = truth(aut.action['env'], s, xp + yp)
                S[s, xp, yp] = truth(aut.action['sys'], s, xp + yp)
    goals = [{s: truth(g, s) for s in ex.S} for g in aut.win['[]<>']]
    holds = [{s: truth(h, s) for s in ex.S} for h in aut.win['<>[]']]
    return E, S, goals, holds, truth


def replay_member(shape, moore, plus_one, values, objective='streett', resolve=False):
    """Real solver on one member vs. independent explicit solver. No z3."""
    import omega.games.gr1 as gr1
    from vlib import bdd2smt, family, xplay
    aut, params = family.build(shape, moore, plus_one)
    concrete_member(aut, {p: values[p] for p in params})
    def solve():
        if objective == 'streett':
            return gr1.solve_streett_game(aut)[0]
        return gr1.solve_rabin_game(aut)[0][-1]
    z = solve()
    if resolve:
        aut.varlist['sys'] = list(aut.varlist['env']) + list(aut.varlist['sys'])
        aut.varlist['env'] = []
        z = solve()
    ex = family.Explicit(aut, bdd2smt.Exporter(aut.bdd))
    E, S, goals, holds, truth = concrete_tables(aut, ex)
    want = xplay.solve(ex.X, ex.Y, lambda s, a, b: E[s, a, b], lambda s, a, b: S[s, a, b],
                       goals, holds, moore, plus_one, objective)
    diffs = []
    for s in ex.S:
        got = truth(z, s)
        if got != want[s]:
            diffs.append((ex.state_values(s), got, want[s]))
    return diffs


def _describe(values, params):
    if all(isinstance(values[p], bool) for p in params):
        return ''.join('1' if values[p] else '0' for p in params)
    return ','.join(f'{p}={values[p]}' for p in params)


def family_region(shape, moore, plus_one, objective='streett', state_idx=None, resolve=False):
    import z3
    import omega.games.gr1 as gr1
    from vlib import bdd2smt, family, xref
    t0 = time.time()
    aut, params = family.build(shape, moore, plus_one)
    def solve():
        if objective == 'streett':
            return gr1.solve_streett_game(aut)[0]
        return gr1.solve_rabin_game(aut)[0][-1]
    z = solve()
    if resolve:
        # history: the same Automaton is solved again after variable ownership was re-assigned in place
        # (every variable now belongs to the component); the result must be the region of the *new* game
        aut.varlist['sys'] = list(aut.varlist['env']) + list(aut.varlist['sys'])
        aut.varlist['env'] = []
        z = solve()
    t_real = time.time() - t0
    exp = bdd2smt.Exporter(aut.bdd)
    ex = family.Explicit(aut, exp)
    E = ex.action_table(aut.action['env'])
    S = ex.action_table(aut.action['sys'])
    goals = [ex.pred_table(g) for g in aut.win['[]<>']]
    holds = [ex.pred_table(h) for h in aut.win['<>[]']]
    game = xref.Game(xref.Z3Alg(), ex.X, ex.Y, lambda s, a, b: E[s, a, b],
                     lambda s, a, b: S[s, a, b], moore, plus_one)
    ref = game.streett(goals, holds) if objective == 'streett' else game.rabin(goals, holds)
    zt = ex.pred_table(z)
    t_build = time.time() - t0 - t_real
    name0 = f'{objective} {shape}{" re-solved after ownership change" if resolve else ""} moore={moore} plus_one={plus_one}'
    sample = dict(shape=shape, moore=moore, plus_one=plus_one, constants=len(params),
                  games=f'2^{len(params)}', states=len(ex.S), region_bdd_nodes=len(z),
                  real_solver_s=round(t_real, 2), member_formula_env=None)
    out = []
    q = {}
    solver_s = 0.0
    # vacuity witness: some member has a region that is neither empty nor full
    sol = z3.Solver()
    sol.set('timeout', SOLVER_MS)
    sol.add(z3.Or([zt[s] for s in ex.S]), z3.Or([z3.Not(zt[s]) for s in ex.S]))
    t1 = time.time()
    r = str(sol.check())
    solver_s += time.time() - t1
    q['witness:' + r] = 1
    nontrivial = (r == 'sat')
    if nontrivial:
        m = sol.model()
        vals = family.model_params(m, params, exp.bits, aut.vars)
        sample['witness_member'] = _describe(vals, params)
        sample['witness_region'] = [ex.state_values(s) for s in ex.S
                                    if z3.is_true(m.eval(zt[s], model_completion=True))]
    for si, s in enumerate(ex.S):
        if state_idx is not None and si not in state_idx:
            continue
        sol = z3.Solver()
        sol.set('timeout', SOLVER_MS)
        sol.add(zt[s] != ref[s])
        t1 = time.time()
        r = str(sol.check())
        dt = time.time() - t1
        solver_s += dt
        q[r] = q.get(r, 0) + 1
        name = f'{name0} state={ex.state_values(s)}'
        if r == 'unsat':
            out.append(core.res(name, 'holds', queries={r: 1}, solver_s=dt, sample=sample,
                                nontrivial=nontrivial, functions=FUNCS))
            continue
        if r != 'sat':
            out.append(core.res(name, 'inconclusive', queries={r: 1}, solver_s=dt,
                                detail=f'solver answered {r}', sample=sample))
            continue
        m = sol.model()
        vals = family.model_params(m, params, exp.bits, aut.vars)
        diffs = replay_member(shape, moore, plus_one, vals, objective, resolve)
        if diffs:
            st, got, want = diffs[0]
            out.append(core.res(
                name, 'violation', queries={r: 1}, solver_s=dt, sample=sample, nontrivial=True,
                functions=FUNCS, signature=f'{objective}-region:{"moore" if moore else "mealy"}:'
                f'{"plus_one" if plus_one else "stepwise"}',
                detail=f'member {_describe(vals, params)} of {shape}: at {st} solver says '
                       f'{"winning" if got else "losing"}, explicit parity solver says '
                       f'{"winning" if want else "losing"} ({len(diffs)} state(s) differ)',
                cex=dict(kind='member', shape=shape, moore=moore, plus_one=plus_one,
                         values=vals, objective=objective, resolve=resolve)))
        else:
            out.append(core.res(name, 'inconclusive', queries={r: 1}, solver_s=dt, sample=sample,
                                detail=f'counterexample member {_describe(vals, params)} did not '
                                       'reproduce on the real solver vs xplay: reference or harness wrong'))
    for o in out:
        o['extra'] = dict(t_real=round(t_real, 2), t_build=round(t_build, 2))
    out[0]['queries'].update({k: v for k, v in q.items() if k.startswith('witness')})
    return out


def member_instances(shape, moore, plus_one, objective, seeds):
    """Per-member runs. A family run keeps iterating while *any* member still changes, so a fixpoint loop
    that stops too early for one member is invisible at family level (a seeded change showed this); each
    seeded member is therefore solved on its own by the real solver and compared, state by state, with the
    independent explicit parity solver."""
    import random
    from vlib import family
    out = []
    for seed in seeds:
        rnd = random.Random(seed)
        aut, params = family.build(shape, moore, plus_one)
        vals = family.random_member(aut, params, rnd)
        name = f'{objective} member {shape}#{seed} moore={moore} plus_one={plus_one}'
        sample = dict(shape=shape, member=_describe(vals, params), moore=moore, plus_one=plus_one, objective=objective)
        try:
            diffs = replay_member(shape, moore, plus_one, vals, objective)
        except Exception as e:  # noqa
            out.append(core.res(name, 'violation', sample=sample, nontrivial=True, functions=FUNCS,
                                signature=f'{objective}-region:member:{type(e).__name__}',
                                detail=f'member {_describe(vals, params)} of {shape}: solver raised {type(e).__name__}: {e}',
                                cex=dict(kind='member', shape=shape, moore=moore, plus_one=plus_one, values=vals, objective=objective)))
            continue
        if diffs:
            st, got, want = diffs[0]
            out.append(core.res(name, 'violation', sample=sample, nontrivial=True, functions=FUNCS,
                                signature=f'{objective}-region:member:{"moore" if moore else "mealy"}:{"plus_one" if plus_one else "stepwise"}',
                                detail=f'member {_describe(vals, params)} of {shape}: at {st} solver says '
                                       f'{"winning" if got else "losing"}, explicit parity solver says '
                                       f'{"winning" if want else "losing"} ({len(diffs)} state(s) differ)',
                                cex=dict(kind='member', shape=shape, moore=moore, plus_one=plus_one, values=vals, objective=objective)))
        else:
            out.append(core.res(name, 'holds', sample=sample, nontrivial=True, functions=FUNCS))
    return out


def validate_reference(seed, n):
    """xref (the oracle) vs the Zielonka solver on seeded concrete games."""
    import random
    from vlib import xref, xplay
    rnd = random.Random(seed)
    bad = []
    nontriv = 0
    total = 0
    for it in range(n):
        nx, ny = rnd.choice([(1, 1), (1, 1), (2, 1), (1, 2), (0, 2)])
        ng, nh = rnd.choice([(1, 1), (2, 1), (1, 2), (2, 2)])
        X = xref.valuations(nx)
        Y = xref.valuations(ny)
        S = [x + y for x in X for y in Y]
        pe, ps = rnd.choice([0.3, 0.5, 0.7, 0.9]), rnd.choice([0.3, 0.5, 0.7, 0.9])
        et = {(s, a, b): rnd.random() < pe for s in S for a in X for b in Y}
        st = {(s, a, b): rnd.random() < ps for s in S for a in X for b in Y}
        goals = [{s: rnd.random() < 0.4 for s in S} for _ in range(ng)]
        holds = [{s: rnd.random() < 0.4 for s in S} for _ in range(nh)]
        for moore, plus_one in MODES:
            g = xref.Game(xref.PyAlg, X, Y, lambda s, a, b: et[s, a, b],
                          lambda s, a, b: st[s, a, b], moore, plus_one)
            for obj in ('streett', 'rabin'):
                ref = g.streett(goals, holds) if obj == 'streett' else g.rabin(goals, holds)
                zp = xplay.solve(X, Y, lambda s, a, b: et[s, a, b], lambda s, a, b: st[s, a, b],
                                 goals, holds, moore, plus_one, obj)
                total += 1
                if any(ref.values()) and not all(ref.values()):
                    nontriv += 1
                if ref != zp:
                    bad.append((obj, moore, plus_one, nx, ny, ng, nh))
            # attractor / trap of the reference vs reachability / safety games
            e_ = lambda s, a, b: et[s, a, b]
            s_ = lambda s, a, b: st[s, a, b]
            P, Q = goals[0], holds[0]
            F = {s: False for s in S}
            PQ = {s: P[s] and Q[s] for s in S}
            checks = [
                ('attractor', g.attractor(P), xplay.solve_reach_safe(X, Y, e_, s_, moore, plus_one, P, F, True)),
                ('attractor-inside', g.attractor(PQ, inside=Q), xplay.solve_reach_safe(
                    X, Y, e_, s_, moore, plus_one, PQ, {s: not Q[s] for s in S}, True)),
                ('trap', g.trap(Q), xplay.solve_reach_safe(X, Y, e_, s_, moore, plus_one, F, {s: not Q[s] for s in S}, False)),
                ('trap-unless', g.trap(Q, unless=P), xplay.solve_reach_safe(
                    X, Y, e_, s_, moore, plus_one, P, {s: not Q[s] and not P[s] for s in S}, False))]
            for nm, a, b in checks:
                total += 1
                if any(a.values()) and not all(a.values()):
                    nontriv += 1
                if a != b:
                    bad.append((nm, moore, plus_one, nx, ny))
    name = f'reference-validation seed={seed} ({total} concrete games, {nontriv} non-trivial)'
    if bad:
        return [core.res(name, 'inconclusive', detail=f'xref disagrees with xplay: {bad[:3]}')]
    return [core.res(name, 'holds', sample=dict(kind='xref-vs-zielonka', games=total, nontrivial=nontriv),
                     nontrivial=nontriv > 0)]


def replay(payload):
    c = payload['cex']
    diffs = replay_member(c['shape'], c['moore'], c['plus_one'], c['values'], c.get('objective', 'streett'), c.get('resolve', False))
    if diffs:
        return True, f'member of {c["shape"]} moore={c["moore"]} plus_one={c["plus_one"]}: {diffs[:2]}'
    return False, 'real solver agrees with the explicit solver on this member'


def shapes_for(tier, objective='streett'):
    # (shape, back end, split per explicit state into separate tasks)
    if tier == 'quick':
        r = [('B11a', 'cudd', 4), ('S11', 'cudd', 0), ('S11h2', 'cudd', 0), ('S11g2', 'cudd', 0), ('B02', 'cudd', 0),
             ('T11b', 'cudd', 0), ('S11', 'autoref', 0)]
        if objective == 'streett':
            r.append(('B02', 'autoref', 0))
        return r
    # three-state-bit *table* families (I11a, I11n, I11b, B21, B12) do not finish inside CUDD's rename for the
    # nested fixpoints (probed: single tasks beyond 6000 s); integers enter through the template families
    return [('B11a', 'cudd', 4), ('S11h2', 'cudd', 0), ('S11g2', 'cudd', 0), ('B11b', 'cudd', 4),
            ('S11', 'cudd', 0), ('B02', 'cudd', 0), ('T11b', 'cudd', 0), ('T11', 'cudd', 16),
            # B11a on dd.autoref: its variable order gives larger exported terms; the Mealy obligations reach
            # z3's timeout (`unknown` after ~1100 s each), so that back end runs the three smaller families
            ('S11', 'autoref', 0), ('B02', 'autoref', 0), ('T11b', 'autoref', 0)]


def run(tier, seed, t0, only=None, objective='streett', pid=PID):
    tasks = []
    for shape, be, split in shapes_for(tier):
        for moore, plus_one in MODES:
            for part in (range(split) if split else [None]):
                tasks.append(dict(mod='vlib.props.c01', fn='family_region',
                                  kw=dict(shape=shape, moore=moore, plus_one=plus_one, objective=objective,
                                          state_idx=None if part is None else [part]),
                                  backend=be, timeout=12000,
                                  name=f'{be}:{objective}:{shape}:moore={moore}:plus_one={plus_one}'
                                       + ('' if part is None else f':state{part}')))
    for shape in (['S11'] if tier == 'quick' else ['S11', 'S11h2', 'B11a']):
        for moore, plus_one in MODES:
            tasks.append(dict(mod='vlib.props.c01', fn='family_region',
                              kw=dict(shape=shape, moore=moore, plus_one=plus_one, objective=objective, resolve=True),
                              timeout=12000, name=f'cudd:{objective}:{shape}:re-solve:moore={moore}:plus_one={plus_one}'))
    nmem = 48 if tier == 'quick' else 600
    for shape in ('S11g2', 'S11g3', 'S11g2h2', 'B11a', 'T11b'):
        for moore, plus_one in MODES:
            sds = [seed * 100000 + i for i in range(nmem)]
            for i in range(0, nmem, 48):
                tasks.append(dict(mod='vlib.props.c01', fn='member_instances',
                                  kw=dict(shape=shape, moore=moore, plus_one=plus_one, objective=objective, seeds=sds[i:i + 48]),
                                  timeout=3000, name=f'cudd:{objective}:members:{shape}:moore={moore}:plus_one={plus_one}[{i}]'))
    nval = 40 if tier == 'quick' else 300
    for i in range(4):
        tasks.append(dict(mod='vlib.props.c01', fn='validate_reference',
                          kw=dict(seed=seed * 100 + i, n=nval // 4), timeout=3000, name=f'xref-validation[{i}]'))
    if only:
        tasks = [t for t in tasks if only in t['name']]
    results = core.run_tasks(tasks)
    return core.finish(
        pid, tier, seed, 'model_checking', results, t0, files=FILES,
        bounds=dict(families=[f'{s}@{b}' for s, b, _ in shapes_for(tier)], modes='4 (moore x plus_one)',
                    unrolling='every Kleene loop of the reference unrolled |states|+2 times',
                    solver_timeout_ms=SOLVER_MS),
        rule='one obligation per (family, mode, explicit state): exists table constants such that the '
             'exported region differs from the unrolled reference at that state; non-trivial = the family '
             'has a member whose region is neither empty nor full (witness query sat)',
        assumptions=['z3 decides the Boolean queries', 'dd node accessors',
                     'a family run is pointwise the run of each member (DESIGN.md 2.4) -- except for loop termination, '
                     'which is why seeded members are also solved one by one and compared with the explicit parity solver',
                     'reference = unrolled mu-calculus on explicit states, validated on every run against an '
                     'independent Zielonka parity solver on seeded concrete games'],
        outside=['more than 2-3 state bits per family in table form', 'rank != 1 (refused by the code)'])
