#!/usr/bin/env python3
"""Run registered checks against a seeded change.

    python3 tools/seeded.py <seeded-id> [Cxx ...] [--tier quick]

Applies /verif/seeded/<id>/patch.diff to /repo (which must be clean), runs the quick
command of the listed checks (default: the property the change targets), records exit
code and first VIOLATION line in seeded/<id>/meta.json under "runs", and reverts /repo
straight afterwards (also on error).
"""
import json
import os
import subprocess
import sys
import time

HERE = os.path.dirname(os.path.dirname(os.path.abspath(__file__)))
REPO = '/repo'


def sh(*a, **kw):
    return subprocess.run(a, capture_output=True, text=True, **kw)


def main():
    args = [a for a in sys.argv[1:] if not a.startswith('--')]
    tier = 'quick'
    if '--tier' in sys.argv:
        tier = sys.argv[sys.argv.index('--tier') + 1]
        args = [a for a in args if a != tier]
    sid, pids = args[0], args[1:]
    d = os.path.join(HERE, 'seeded', sid)
    meta_p = os.path.join(d, 'meta.json')
    meta = json.load(open(meta_p))
    pids = pids or [meta['property']]
    st = sh('git', '-C', REPO, 'status', '--porcelain', '--untracked-files=no').stdout.strip()
    if st:
        print('refusing: /repo has uncommitted changes to tracked files:\n' + st)
        return 2
    r = sh('git', '-C', REPO, 'apply', os.path.join(d, 'patch.diff'))
    if r.returncode:
        print('patch does not apply:', r.stderr)
        return 2
    try:
        for pid in pids:
            t0 = time.time()
            r = sh(os.path.join(HERE, 'check'), pid, '--tier', tier, cwd=HERE,
                   env=dict(os.environ, VERIF_SEED=os.environ.get('VERIF_SEED', '0')))
            lines = r.stdout.splitlines()
            viol = [l for l in lines if l.startswith('VIOLATION')]
            first = ''
            if viol:
                i = lines.index(viol[0])
                first = (lines[i + 1].strip() if i + 1 < len(lines) else '')[:400]
            summary = lines[-1] if lines else ''
            run = dict(check=pid, tier=tier, exit=r.returncode, violations=len(viol), first_violation=first,
                       summary=summary[:300], wall_s=round(time.time() - t0, 1),
                       repo_head=sh('git', '-C', REPO, 'rev-parse', '--short', 'HEAD').stdout.strip())
            meta.setdefault('runs', [])
            meta['runs'] = [x for x in meta['runs'] if not (x['check'] == pid and x['tier'] == tier)] + [run]
            print(f'{sid} {pid} [{tier}]: exit {r.returncode}, {len(viol)} VIOLATION line(s); {first[:160]}')
    finally:
        sh('git', '-C', REPO, 'checkout', '--', '.')
        # evidence files were rewritten against the mutated tree: restore the committed ones
        sh('git', '-C', HERE, 'checkout', '--', 'evidence')
    json.dump(meta, open(meta_p, 'w'), indent=1)
    return 0


if __name__ == '__main__':
    sys.exit(main())
