"""C19 — steppers only take steps their actions allow and keep components isolated.

Solver-decided part: the name-mangling kernels behind `steps.Assembly` with symbolic
strings (CrossHair, vlib/ch/h19.py): local -> global -> local round trip, mangled names of
different components never collide, a component sees only its own hidden variables.

Conformance part (enumeration with a solver-made oracle, stated as such): for synthesized
implementations (instance set of C12) `AutomatonStepper.step` is called at *every* product
state (<= 2^8); the set of enabled states is defined by z3 on the exported action
(`exists next. impl(state, next)`), each returned step is evaluated on the export, a
disabled state must raise `ValueError`, `init()` must satisfy the exported initial
condition.  Two-component assemblies (environment stepper + Moore implementation) are
simulated and every recorded step is evaluated against both exported actions, with the
hidden counter mangled per component.
"""
import contextlib
import io
import itertools
import random
import time

from vlib import core
from vlib.props import c12

PID = 'C19'
FILES = ['omega/steps.py', 'omega/symbolic/fol.py']
FUNCS = ['steps.AutomatonStepper.init', 'steps.AutomatonStepper.step', 'steps.Assembly.init', 'steps.Assembly.step',
         'steps.Assembly._to_local_state', 'steps.Assembly._to_global_state', 'steps.add_prefix', 'steps.omit_prefix',
         'steps._omit_prefix', 'steps.visible_vars', 'steps.hidden_vars', 'steps._unprime_state',
         'steps.EnumStrategyStepper', 'steps.enumerate_impl']
SOLVER_MS = 60000


def check_steppers(seeds):
    import z3
    import omega.steps as steps
    from vlib import bdd2smt, link
    out = []
    for seed in seeds:
        c = c12.make_case(seed)
        aut, desc = c12.build_case(c)
        if aut is None:
            continue
        name = f'stepper #{seed} {c["kind"]} {c["objective"]} moore={c["moore"]} plus_one={c["plus_one"]}'
        sample = dict(case=c, game=desc)
        t1 = time.time()
        exp = bdd2smt.Exporter(aut.bdd)
        bits = exp.bits
        t = aut.vars
        env, impl = list(aut.varlist['env']), list(aut.varlist['impl'])
        eA, eI = exp.export(aut.action['impl']), exp.export(aut.init['impl'])
        stepper = steps.AutomatonStepper(aut)
        problems = []
        q = {}

        def sub(term, vals):
            s = []
            for k, v in vals.items():
                pr = k.endswith("'")
                base = k[:-1] if pr else k
                for b, val in link.value_to_bits(base, t[base], v, pr).items():
                    s.append((bits(b), z3.BoolVal(val)))
            return z3.substitute(term, *s) if s else term

        def vals(k):
            d = t[k]
            if d['type'] == 'bool':
                return [False, True]
            lo, hi = link.rep_range(d)
            return list(range(lo, hi + 1))
        # init
        try:
            i0 = stepper.init()
            if set(i0) != set(impl):
                problems.append(f'init: returned {sorted(i0)} instead of the implementation variables {sorted(impl)}')
            else:
                sol = z3.Solver()
                sol.add(sub(eI, i0))     # satisfiable for some value of the environment variables
                r = str(sol.check())
                q[r] = q.get(r, 0) + 1
                if r != 'sat':
                    problems.append(f'init: values {i0} violate the initial condition of the implementation')
        except Exception as e:  # noqa
            problems.append(f'init: raised {type(e).__name__}: {e}')
        # every product state (Mealy: together with every next environment value)
        keys = env + impl
        mealy_keys = [] if c['moore'] else [k + "'" for k in env]
        nstates = 0
        for vs in itertools.product(*[vals(k) for k in keys]):
            st = dict(zip(keys, vs))
            for ws in itertools.product(*[vals(k[:-1]) for k in mealy_keys]):
                state = dict(st, **dict(zip(mealy_keys, ws)))
                nstates += 1
                cur = sub(eA, state)
                sol = z3.Solver()
                sol.set('timeout', SOLVER_MS)
                sol.add(cur)
                r = str(sol.check())
                q[r] = q.get(r, 0) + 1
                if r not in ('sat', 'unsat'):
                    problems.append('unknown')
                    continue
                enabled = r == 'sat'
                try:
                    nxt = stepper.step(dict(state))
                except ValueError:
                    if enabled:
                        problems.append(f'step: ValueError at {state} although the action is enabled there')
                    continue
                except Exception as e:  # noqa
                    problems.append(f'step: raised {type(e).__name__} at {state}: {str(e)[:80]}')
                    continue
                if not enabled:
                    problems.append(f'step: returned {nxt} at {state} where the action is disabled')
                    continue
                if not set(impl) <= set(nxt):
                    problems.append(f'step: result {nxt} at {state} lacks implementation variables')
                    continue
                after = sub(cur, {k + "'": v for k, v in nxt.items() if (k + "'") not in state})
                if not z3.is_true(z3.simplify(after)):
                    so = z3.Solver()
                    so.add(z3.Not(after))
                    if str(so.check()) != 'unsat':
                        problems.append(f'step: {state} -> {nxt} is not allowed by the action')
            if len(problems) > 5:
                break
        dt = time.time() - t1
        sample['states'] = nstates
        if not problems:
            out.append(core.res(name, 'holds', queries=q, solver_s=dt, sample=sample, nontrivial=nstates > 4, functions=FUNCS,
                                extra=dict(states=nstates)))
        elif problems == ['unknown']:
            out.append(core.res(name, 'inconclusive', queries=q, solver_s=dt, sample=sample, detail='solver unknown'))
        else:
            out.append(core.res(name, 'violation', queries=q, solver_s=dt, sample=sample, nontrivial=True, functions=FUNCS,
                                signature='stepper:' + problems[0].split(':')[0],
                                detail=f'{desc}: {problems[0]} ({len(problems)} problem(s))', cex=dict(kind='stepper', seed=seed)))
    return out

def check_enum_steppers(seeds):
    """`steps.EnumStrategyStepper` on graphs enumerated from real implementations (C12's instance set).

    init(): the implementation variables of an initial node, satisfying the initial condition for some environment
    value (z3 on the exported BDD).  step(state) at every node: values for exactly the implementation variables;
    Moore implementations: allowed by the implementation action for *every* next environment value the environment
    action admits (query `EnvNext(state, x') /\ ~ Impl(state, x', d)` unsat); Mealy: for some admitted one."""
    import z3
    import omega.games.enumeration as enum
    import omega.steps as steps
    from vlib import bdd2smt, link
    out = []
    for seed in seeds:
        c = c12.make_case(seed)
        aut, desc = c12.build_case(c)
        if aut is None:
            continue
        name = f'enumerated stepper #{seed} {c["kind"]} {c["objective"]} moore={c["moore"]} qinit={c["qinit"]}'
        sample = dict(case=c, game=desc)
        t1 = time.time()
        env, impl = list(aut.varlist['env']), list(aut.varlist['impl'])
        problems, q = [], {}
        try:
            with contextlib.redirect_stdout(io.StringIO()):
                g = enum.action_to_steps(aut, env='env', sys='impl', qinit=c['qinit'])
            g.inputs, g.outputs = env, impl
            stepper = steps.EnumStrategyStepper(g)
        except Exception as e:  # noqa
            out.append(core.res(name, 'inconclusive', sample=sample, detail=f'graph not constructible: {type(e).__name__}: {e}'))
            continue
        exp = bdd2smt.Exporter(aut.bdd)
        bits = exp.bits
        t = aut.vars
        eA, eE, eI = exp.export(aut.action['impl']), exp.export(aut.action['env']), exp.export(aut.init['impl'])

        def sub(term, vals):
            s_ = []
            for k, v in vals.items():
                pr = k.endswith("'")
                base = k[:-1] if pr else k
                for b, val in link.value_to_bits(base, t[base], v, pr).items():
                    s_.append((bits(b), z3.BoolVal(val)))
            return z3.substitute(term, *s_) if s_ else term

        def chk(fs):
            sol = z3.Solver()
            sol.set('timeout', SOLVER_MS)
            sol.add(*fs)
            r = str(sol.check())
            q[r] = q.get(r, 0) + 1
            return r
        try:
            i0 = stepper.init()
            if set(i0) != set(impl):
                problems.append(f'init: returned {sorted(i0)} instead of the implementation variables {sorted(impl)}')
            elif chk([sub(eI, i0)]) != 'sat':
                problems.append(f'init: values {i0} violate the initial condition of the implementation')
            elif not any(all(g.nodes[u][k] == i0[k] for k in impl) for u in g.initial_nodes):
                problems.append(f'init: values {i0} belong to no initial node of the graph')
        except Exception as e:  # noqa
            problems.append(f'init: raised {type(e).__name__}: {e}')
        for n_, d in g.nodes(data=True):
            state = dict(d)
            if not list(g.successors(n_)):
                continue
            try:
                nxt = stepper.step(dict(state))
            except Exception as e:  # noqa
                problems.append(f'step: raised {type(e).__name__} at node {state}: {str(e)[:80]}')
                continue
            if set(nxt) != set(impl):
                problems.append(f'step: result {nxt} at {state} is not a valuation of the implementation variables {sorted(impl)}')
                continue
            cur_env = sub(eE, state)
            after = sub(sub(eA, state), {k + "'": v for k, v in nxt.items()})
            if c['moore']:
                r = chk([cur_env, z3.Not(after)])
                if r == 'sat':
                    problems.append(f'step: at {state} the values {nxt} are not allowed by the implementation for some admitted next input')
                elif r != 'unsat':
                    problems.append('unknown')
            else:
                r = chk([cur_env, after])
                if r == 'unsat':
                    problems.append(f'step: at {state} the values {nxt} are allowed for no admitted next input')
                elif r != 'sat':
                    problems.append('unknown')
            if len(problems) > 5:
                break
        dt = time.time() - t1
        sample['nodes'] = len(g)
        if not problems:
            out.append(core.res(name, 'holds', queries=q, solver_s=dt, sample=sample, nontrivial=len(g) > 2, functions=FUNCS,
                                extra=dict(states=len(g))))
        elif problems == ['unknown']:
            out.append(core.res(name, 'inconclusive', queries=q, solver_s=dt, sample=sample, detail='solver unknown'))
        else:
            out.append(core.res(name, 'violation', queries=q, solver_s=dt, sample=sample, nontrivial=True, functions=FUNCS,
                                signature='enum-stepper:' + problems[0].split(':')[0],
                                detail=f'{desc}: {problems[0]} ({len(problems)} problem(s))', cex=dict(kind='enum-stepper', seed=seed)))
    return out


def check_observers(seeds):
    """A component that owns no variable and whose action is a state invariant: `step` must return an empty
    assignment where the invariant holds and raise ValueError where it does not."""
    import omega.steps as steps
    import omega.symbolic.temporal as trl
    out = []
    for seed in seeds:
        rnd = random.Random(seed)
        aut = trl.Automaton()
        aut.declare_variables(x=(0, 3), y=(-2, 1), b='bool')
        aut.varlist = dict(env=['x', 'y', 'b'], sys=[], impl=[])
        aut.prime_varlists()
        inv = rnd.choice([f'x + y <= {rnd.randint(-1, 4)}', f'(x = {rnd.randint(0, 3)}) \\/ b', f'b => (y < {rnd.randint(-1, 1)})',
                          f'(x # {rnd.randint(0, 3)}) /\\ (y >= {rnd.randint(-2, 0)})'])
        aut.action['impl'] = inv
        aut.init['impl'] = 'TRUE'
        st = steps.AutomatonStepper(aut)
        name = f'observer #{seed} invariant {inv}'
        problems = []
        n = 0
        for xv in range(0, 4):
            for yv in range(-4, 4):
                for bv_ in (False, True):
                    state = dict(x=xv, y=yv, b=bv_)
                    n += 1
                    want = aut.let(state, aut.action['impl']) == aut.true
                    try:
                        r = st.step(dict(state))
                        got = True
                    except ValueError:
                        got, r = False, None
                    except Exception as e:  # noqa
                        problems.append(f'step raised {type(e).__name__} at {state}')
                        continue
                    if got != want:
                        problems.append(f'at {state} the invariant is {want} but step ' + ('returned ' + str(r) if got else 'raised ValueError'))
                    elif got and r != {}:
                        problems.append(f'at {state} step returned {r} for a component without variables')
        sample = dict(invariant=inv, states=n)
        if problems:
            out.append(core.res(name, 'violation', sample=sample, nontrivial=True, functions=FUNCS, signature='stepper:observer',
                                detail=f'{problems[0]} ({len(problems)} problem(s))', cex=dict(kind='observer', seed=seed)))
        else:
            out.append(core.res(name, 'holds', sample=sample, nontrivial=True, functions=FUNCS, extra=dict(states=n)))
    return out


def check_assemblies(seeds, steps_n):
    """Environment stepper + Moore implementation stepper, named so that names could clash."""
    import z3
    import omega.steps as steps
    import omega.symbolic.temporal as trl
    from vlib import bdd2smt, link
    out = []
    for seed in seeds:
        c = c12.make_case(seed)
        c['moore'] = True
        c['qinit'] = '\\A \\A'
        aut, desc = c12.build_case(c)
        if aut is None:
            continue
        rnd = random.Random(seed)
        env, sys_, impl = list(aut.varlist['env']), list(aut.varlist['sys']), list(aut.varlist['impl'])
        if not env:
            continue
        # the environment as a component of its own: implementation variables = env variables
        ea = trl.Automaton()
        decl = {k: (aut.vars[k]['dom'] if aut.vars[k]['type'] == 'int' else 'bool') for k in env + sys_}
        ea.declare_variables(**decl)
        ea.varlist = dict(env=list(sys_), sys=list(env), impl=list(env))
        ea.prime_varlists()
        ea.action['impl'] = aut.bdd.copy(aut.action['env'], ea.bdd)
        ea.init['impl'] = aut.bdd.copy(aut.exist([v for v in ('_goal', '_hold') if v in aut.vars] or [], aut.init['env']), ea.bdd)
        # component names chosen to provoke clashes: the environment component is named like a variable it controls
        names = dict(e=env[0], s=rnd.choice(['s', sys_[0] if sys_ else 's', 'sx']))
        if names['e'] == names['s']:
            names['s'] = 's'
        asm = steps.Assembly()
        asm.machines = {names['e']: steps.AutomatonStepper(ea), names['s']: steps.AutomatonStepper(aut)}
        name = f'assembly #{seed} {c["kind"]} {c["objective"]} components={names}'
        sample = dict(case=c, game=desc, component_names=names)
        problems = []
        exp = bdd2smt.Exporter(aut.bdd)
        bits = exp.bits
        t = aut.vars
        eA, eE = exp.export(aut.action['impl']), exp.export(aut.action['env'])

        def sub(term, vals_):
            s = []
            for k, v in vals_.items():
                pr = k.endswith("'")
                base = k[:-1] if pr else k
                if base not in t:
                    continue
                for b, val in link.value_to_bits(base, t[base], v, pr).items():
                    s.append((bits(b), z3.BoolVal(val)))
            return z3.simplify(z3.substitute(term, *s)) if s else term
        hidden = [k for k in impl if k.startswith('_')]
        recorded = 0
        try:
            with contextlib.redirect_stdout(io.StringIO()):
                asm.init()
                for _ in range(steps_n):
                    asm.step()
        except ValueError as e:
            # the environment may have reached a state where it cannot move: not an implementation fault
            if 'not enabled' not in str(e):
                problems.append(f'assembly: raised ValueError: {e}')
        except Exception as e:  # noqa
            import traceback
            where = traceback.extract_tb(e.__traceback__)[-1]
            problems.append(f'assembly: raised {type(e).__name__} at {where.name}:{where.lineno}: {str(e)[:100]}')
        hist = [s for s in asm.past if s] + ([asm.state] if asm.state else [])
        for a, b in zip(hist, hist[1:]):
            recorded += 1
            expect = set(env + sys_) | {names['s'] + h for h in hidden}
            if set(b) != expect:
                problems.append(f'assembly: global state has keys {sorted(b)} instead of {sorted(expect)}')
                break
            la = {k: a[k] for k in env + sys_}
            la.update({h: a[names['s'] + h] for h in hidden})
            lb = {k + "'": b[k] for k in env + sys_}
            lb.update({h + "'": b[names['s'] + h] for h in hidden})
            if not z3.is_true(sub(sub(eA, la), lb)):
                problems.append(f'assembly: recorded step {a} -> {b} violates the implementation action')
            if not z3.is_true(sub(sub(eE, la), lb)):
                problems.append(f'assembly: recorded step {a} -> {b} violates the environment component\'s action')
        sample['recorded_steps'] = recorded
        if problems:
            out.append(core.res(name, 'violation', sample=sample, nontrivial=True, functions=FUNCS,
                                signature='assembly:' + problems[0].split(' ')[1],
                                detail=f'{desc}: {problems[0]} ({len(problems)} problem(s))', cex=dict(kind='assembly', seed=seed, steps=steps_n)))
        else:
            out.append(core.res(name, 'holds', sample=sample, nontrivial=recorded >= 2, functions=FUNCS,
                                extra=dict(transitions=recorded)))
    return out


def replay(payload):
    c = payload['cex']
    if c['kind'] == 'crosshair':
        from vlib import chrun
        return chrun.replay_call(c['module'], c['func'], c['args'])
    if c['kind'] == 'observer':
        r = check_observers([c['seed']])
    elif c['kind'] == 'stepper':
        r = check_steppers([c['seed']])
    elif c['kind'] == 'enum-stepper':
        r = check_enum_steppers([c['seed']])
    else:
        r = check_assemblies([c['seed']], c.get('steps', 12))
    bad = [x for x in r if x['status'] == 'violation']
    return bool(bad), (bad[0]['detail'] if bad else 'conforms')


def run(tier, seed, t0, only=None):
    n = 120 if tier == 'quick' else 1500
    seeds = [seed * 100000 + i for i in range(n)]
    tasks = []
    cht = 900 if tier == 'quick' else 1800  # a bound, not a cost: CrossHair stops when every path is confirmed (60-190 s)
    for f in ('prop_local_global_roundtrip', 'prop_isolation'):
        tasks.append(dict(mod='vlib.chrun', fn='ch_task', kw=dict(module='vlib.ch.h19', func=f, timeout=cht, functions=FUNCS),
                          timeout=cht * 4 + 300, name=f'crosshair:{f}'))
    for i in range(0, n, 6):
        tasks.append(dict(mod='vlib.props.c19', fn='check_steppers', kw=dict(seeds=seeds[i:i + 6]), timeout=1800,
                          name=f'steppers[{i}]'))
        tasks.append(dict(mod='vlib.props.c19', fn='check_assemblies', kw=dict(seeds=seeds[i:i + 6], steps_n=12 if tier == 'quick' else 40),
                          timeout=1800, name=f'assemblies[{i}]'))
    for i in range(0, n, 24):
        tasks.append(dict(mod='vlib.props.c19', fn='check_enum_steppers', kw=dict(seeds=seeds[i:i + 24]), timeout=1800,
                          name=f'enum-steppers[{i}]'))
    tasks.append(dict(mod='vlib.props.c19', fn='check_observers', kw=dict(seeds=seeds[:24 if tier == 'quick' else 200]),
                      timeout=1800, name='observers[0]'))
    if only:
        tasks = [t for t in tasks if only in t['name']]
    results = core.run_tasks(tasks)
    return core.finish(
        PID, tier, seed, 'model_checking', results, t0, files=FILES,
        bounds=dict(strings='component names over {a,b} of length <= 2 (enumerated for the isolation harness), visible names over {a,b} '
                            'of length <= 2, hidden names "_" + up to 2 characters over {a,b,_} (symbolic, CrossHair)',
                    steppers=f'{n} seeded implementations (C12 instance set), every product state, Mealy states with every next input',
                    assemblies='environment component + Moore implementation, 12 (thorough 40) steps, component named like a variable'),
        rule='CrossHair: one obligation per harness (plus refuted reachability twin). Steppers: one obligation per implementation, '
             'all product states enumerated, enabledness decided by z3 on the exported action (enumeration with a solver-made oracle). '
             'Assemblies: every recorded step evaluated on both exported actions. Non-trivial = more than 4 states / at least 2 recorded steps',
        assumptions=['CrossHair 0.0.110', 'z3', 'dd node accessors',
                     'component names contain no underscore and visible variables contain no underscore (otherwise the mangling '
                     'scheme itself is ambiguous)'],
        outside=['assemblies of more than two components', 'Mealy implementations inside assemblies', 'EnumStrategyStepper beyond graphs of C12\'s instance set; steps.enumerate_impl (raises TypeError on every call: it omits the required env / sys arguments of action_to_steps)'],
        extra_cov=dict(states=sum(r['extra'].get('states', 0) for r in results),
                       transitions=sum(r['extra'].get('transitions', 0) for r in results)))
