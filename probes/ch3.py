import omega.logic.bitvector as bv
def i2tc(x: int) -> bool:
    """
    pre: -40 <= x <= 40
    post: _
    """
    bits = bv.int_to_twos_complement(x)
    n = len(bits)
    val = sum(int(b) << i for i, b in enumerate(bits[:-1])) - (int(bits[-1]) << (n - 1))
    return val == x and n >= 2 and n == max(x.bit_length(), 1) + 1
