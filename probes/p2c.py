import time, z3, itertools, sys
import omega.logic.bitvector as bv
from p2 import slugs_to_z3, link
W = 64
doms = [(0,1),(0,6),(-3,4),(-8,-1),(0,30),(-16,15)]
for op in ['/', '%']:
  for dx, dy in itertools.product(doms, doms):
    t = bv.bitblast_table(dict(x=dict(type='int', dom=dx), y=dict(type='int', dom=dy), r=dict(type='int', dom=(-4000, 4000))))
    try:
        s = bv.bitblast(f'(x {op} y) = r', t)
    except Exception as ex:
        print(op, dx, dy, 'EXC', type(ex).__name__, str(ex)[:60]); continue
    bits = {}
    bvf = lambda n: bits.setdefault(n, z3.Bool(n))
    e = slugs_to_z3(s, bvf)
    def tobv(name):
        d = t[name]; bn = d['bitnames']; w = d['width']
        v = z3.Concat(*[z3.If(bvf(b), z3.BitVecVal(1,1), z3.BitVecVal(0,1)) for b in reversed(bn)]) if len(bn) > 1 else z3.If(bvf(bn[0]), z3.BitVecVal(1,1), z3.BitVecVal(0,1))
        if d['signed']: return z3.SignExt(W - w, v)
        v = z3.ZeroExt(W - w, v)
        if d['dom'][0] < 0: v = v - z3.BitVecVal(2**w, W)
        return v
    X, Y, R = tobv('x'), tobv('y'), tobv('r')
    sol = z3.Solver(); sol.set('timeout', 60000)
    sol.add(Y != 0)
    ref = ((X / Y) if op == '/' else z3.SRem(X, Y)) == R   # bvsdiv truncates; bvsrem sign follows dividend
    sol.add(e != ref)
    t0 = time.time(); r = sol.check(); msg = ''
    if str(r) == 'sat':
        m = sol.model(); msg = f'x={m.eval(X).as_signed_long()} y={m.eval(Y).as_signed_long()} r={m.eval(R).as_signed_long()} circuit={m.eval(e)}'
    print(op, dx, dy, r, f'{time.time()-t0:.2f}s', msg, flush=True)
