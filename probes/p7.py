import itertools, logging
import omega.symbolic.fol as _fol, omega.symbolic.cover as cov
logging.disable(logging.CRITICAL)
bad = 0; n = 0
import random
for seed in range(300):
    rnd = random.Random(seed)
    pts = list(itertools.product([0,1], repeat=3))
    fset = [p for p in pts if rnd.random() < 0.6]
    if not fset or len(fset) == 8: continue
    ctx = _fol.Context(); ctx.declare(x=(0,1), y=(0,1), z=(0,1))
    f = ctx.false
    for p in fset: f |= ctx.assign_from(dict(zip('xyz', p)))
    n += 1
    try:
        cov.minimize(f, ctx.true, ctx)
    except NameError as e:
        bad += 1; print('NameError', fset); break
    except Exception as e:
        print(type(e).__name__, str(e)[:100], fset)
print(n, bad)
