"""C15 — past -> future translation: testers track the past operators on every trace.

The whole trace is symbolic: z3 Bool `p@i` for every variable and position i < L,
and `a@i` for every auxiliary variable returned by `past.translate`.  `init`, `trans`
and the translated formula are re-read with omega's parser and evaluated position
by position (`'` = next position).  The reference is a direct recursion over
positions (anchored semantics: weak previous true, strong previous false at 0).

Per formula:
  existence    for all variable traces there are auxiliary values with Init /\\ Trans   (QBF)
  uniqueness   two auxiliary traces satisfying Init /\\ Trans on the same variable trace
               and differing somewhere: unsat
  agreement    Init /\\ Trans /\\ translated@i != original@i for some i: unsat
With until=True (future-only formulas): lasso-shaped traces with a symbolic loop
point, `win` conditions as fairness inside the loop.
"""
import itertools
import random
import time

from vlib import core

PID = 'C15'
FILES = ['omega/logic/past.py', 'omega/logic/lexyacc.py']
FUNCS = ['past.translate', 'past.Nodes.*.flatten', 'past._flatten_previous', 'past._flatten_since',
         'past._flatten_until', 'past._make_tester_for_previous']
SOLVER_MS = 120000
VARS = ['p', 'q']
INTS = ['x', 'y']          # integer-valued trace variables, used inside comparison atoms only
# atoms over integers: ('cmp', op, A, B) with A, B in ('ivar', n) | ('num', k) | ('arith', op, A, B) | ('aite', c, A, B)
INT_ATOMS = [
    ('cmp', '=', ('ivar', 'x'), ('num', 1)),
    ('cmp', '<', ('ivar', 'x'), ('ivar', 'y')),
    ('cmp', '>', ('arith', '+', ('ivar', 'x'), ('ivar', 'y')), ('num', 1)),
    ('cmp', '>=', ('aite', ('var', 'p'), ('ivar', 'x'), ('arith', '-', ('ivar', 'y'), ('num', 1))), ('num', 1)),
    ('cmp', '#', ('ivar', 'y'), ('num', 0)),
]

UN_PAST = ['wprev', 'sprev', 'hist', 'once']
BIN_PAST = ['since']
UN_FUT = ['next', 'always', 'eventually']
BIN_FUT = ['until']
BOOL_BIN = ['and', 'or', 'implies', 'equiv']
SPELL = {'wprev': '-X', 'sprev': '--X', 'hist': '-[]', 'once': '-<>', 'since': 'S', 'not': '~',
         'and': '/\\', 'or': '\\/', 'implies': '=>', 'equiv': '<=>', 'next': 'X', 'always': '[]',
         'eventually': '<>', 'until': 'U'}


def to_str(t):
    k = t[0]
    if k == 'var':
        return t[1]
    if k == 'const':
        return 'TRUE' if t[1] else 'FALSE'
    if k == 'ivar':
        return t[1]
    if k == 'num':
        return str(t[1])
    if k in ('cmp', 'arith'):
        return f'({to_str(t[2])} {t[1]} {to_str(t[3])})'
    if k in ('aite', 'bite'):
        return f'ite({to_str(t[1])}, {to_str(t[2])}, {to_str(t[3])})'
    if len(t) == 2:
        return f'({SPELL[k]} {to_str(t[1])})'
    return f'({to_str(t[1])} {SPELL[k]} {to_str(t[2])})'


def all_depth1():
    atoms = [('var', v) for v in VARS] + [('const', True), ('const', False)]
    out = []
    for u in UN_PAST + ['not']:
        out += [(u, a) for a in atoms]
    for b in BIN_PAST + BOOL_BIN:
        out += [(b, a, c) for a in atoms for c in atoms]
    # comparison atoms over integer-valued variables under every past operator, and the ternary connective
    for a in INT_ATOMS:
        out += [(u, a) for u in UN_PAST]
        out += [('since', a, ('var', 'p')), ('since', ('var', 'q'), a)]
    out += [('since', INT_ATOMS[0], INT_ATOMS[1]),
            ('wprev', ('bite', ('var', 'p'), ('var', 'q'), INT_ATOMS[0])),
            ('bite', ('sprev', ('var', 'p')), ('once', INT_ATOMS[1]), ('hist', ('var', 'q')))]
    return out


def gen(rnd, depth, un, bi, ints=False):
    if depth == 0 or rnd.random() < 0.2:
        r0 = rnd.random()
        if r0 < 0.2 and ints:
            return rnd.choice(INT_ATOMS)
        return ('var', rnd.choice(VARS)) if r0 < 0.88 else ('const', rnd.random() < 0.5)
    r = rnd.random()
    if r < 0.08 and ints:
        return ('bite',) + tuple(gen(rnd, depth - 1, un, bi, ints) for _ in range(3))
    if r < 0.45:
        return (rnd.choice(un + ['not']), gen(rnd, depth - 1, un, bi, ints))
    return (rnd.choice(bi + BOOL_BIN), gen(rnd, depth - 1, un, bi, ints), gen(rnd, depth - 1, un, bi, ints))


# ------------------------------------------------------------------ evaluation of omega strings

def _parse(s, names):
    import omega.logic.lexyacc as lexyacc
    from vlib import sem
    tree = _PARSER[0].parse(s) if _PARSER else None
    if tree is None:
        _PARSER.append(lexyacc.Parser())
        tree = _PARSER[0].parse(s)
    table = {n: dict(type='bool') for n in names}
    return _conv(tree, False)


_PARSER = []


def _conv(node, primed):
    """omega AST -> ('v', name, nprimes) / ('c', bool) / (op, ...) with primes counted."""
    cls = type(node).__name__
    if cls == 'Var':
        return ('v', node.value, primed)
    if cls == 'Bool':
        return ('c', node.value.lower() == 'true')
    if cls == 'Num':
        return ('n', int(node.value))
    op = node.operator
    if cls in ('Comparator', 'Arithmetic'):
        return ('cmp' if cls == 'Comparator' else 'ar', op, _conv(node.operands[0], primed), _conv(node.operands[1], primed))
    xs = node.operands
    if cls == 'Unary':
        if op in ('X', "'"):
            return _conv(xs[0], primed + 1)
        if op == '~':
            return ('not', _conv(xs[0], primed))
        raise ValueError(f'temporal operator {op} left in translated formula')
    if cls == 'Binary':
        m = {'/\\': 'and', '\\/': 'or', '=>': 'implies', '<=>': 'equiv', '^': 'xor'}
        if op in m:
            return (m[op], _conv(xs[0], primed), _conv(xs[1], primed))
        raise ValueError(f'temporal operator {op} left in translated formula')
    if cls == 'Operator' and op == 'ite':
        return ('ite', _conv(xs[0], primed), _conv(xs[1], primed), _conv(xs[2], primed))
    raise ValueError(f'unexpected node {cls} {getattr(node, "operator", "")}')


def _ev(t, val):
    """val(name, nprimes) -> z3 Bool"""
    import z3
    k = t[0]
    if k == 'v':
        return val(t[1], t[2])
    if k == 'c':
        return z3.BoolVal(t[1])
    if k == 'not':
        return z3.Not(_ev(t[1], val))
    if k == 'n':
        return z3.IntVal(t[1])
    if k in ('cmp', 'ar'):
        a, b = _ev(t[2], val), _ev(t[3], val)
        return _OPS[t[1]](a, b)
    a, b = _ev(t[1], val), _ev(t[2], val)
    if k == 'and':
        return z3.And(a, b)
    if k == 'or':
        return z3.Or(a, b)
    if k == 'implies':
        return z3.Implies(a, b)
    if k == 'equiv':
        return a == b
    if k == 'xor':
        return z3.Xor(a, b)
    if k == 'ite':
        return z3.If(a, b, _ev(t[3], val))
    raise ValueError(k)


_OPS = {'=': lambda a, b: a == b, '#': lambda a, b: a != b, '!=': lambda a, b: a != b, '/=': lambda a, b: a != b,
        '<': lambda a, b: a < b, '<=': lambda a, b: a <= b, '=<': lambda a, b: a <= b,
        '>': lambda a, b: a > b, '>=': lambda a, b: a >= b,
        '+': lambda a, b: a + b, '-': lambda a, b: a - b, '*': lambda a, b: a * b}


def _max_primes(t):
    if t[0] == 'v':
        return t[2]
    if t[0] in ('c', 'n'):
        return 0
    return max(_max_primes(c) for c in t[1:] if isinstance(c, tuple))


# ------------------------------------------------------------------ reference semantics

def ref_past(t, i, P):
    """Truth of past formula t at position i; P[name][j] z3 Bool."""
    import z3
    k = t[0]
    if k == 'var':
        return P[t[1]][i]
    if k == 'const':
        return z3.BoolVal(t[1])
    if k == 'ivar':
        return P[t[1]][i]
    if k == 'num':
        return z3.IntVal(t[1])
    if k in ('cmp', 'arith'):
        return _OPS[t[1]](ref_past(t[2], i, P), ref_past(t[3], i, P))
    if k in ('aite', 'bite'):
        return z3.If(ref_past(t[1], i, P), ref_past(t[2], i, P), ref_past(t[3], i, P))
    if k == 'not':
        return z3.Not(ref_past(t[1], i, P))
    if k == 'wprev':
        return z3.BoolVal(True) if i == 0 else ref_past(t[1], i - 1, P)
    if k == 'sprev':
        return z3.BoolVal(False) if i == 0 else ref_past(t[1], i - 1, P)
    if k == 'hist':
        return z3.And([ref_past(t[1], j, P) for j in range(i + 1)])
    if k == 'once':
        return z3.Or([ref_past(t[1], j, P) for j in range(i + 1)])
    if k == 'since':
        return z3.Or([z3.And([ref_past(t[2], j, P)] + [ref_past(t[1], m, P) for m in range(j + 1, i + 1)])
                      for j in range(i + 1)])
    a, b = ref_past(t[1], i, P), ref_past(t[2], i, P)
    return {'and': z3.And(a, b), 'or': z3.Or(a, b), 'implies': z3.Implies(a, b), 'equiv': a == b}[k]


def py_past(t, i, P):
    k = t[0]
    if k == 'var':
        return P[t[1]][i]
    if k == 'const':
        return t[1]
    if k == 'ivar':
        return P[t[1]][i]
    if k == 'num':
        return t[1]
    if k in ('cmp', 'arith'):
        return _OPS[t[1]](py_past(t[2], i, P), py_past(t[3], i, P))
    if k in ('aite', 'bite'):
        return py_past(t[2], i, P) if py_past(t[1], i, P) else py_past(t[3], i, P)
    if k == 'not':
        return not py_past(t[1], i, P)
    if k == 'wprev':
        return True if i == 0 else py_past(t[1], i - 1, P)
    if k == 'sprev':
        return False if i == 0 else py_past(t[1], i - 1, P)
    if k == 'hist':
        return all(py_past(t[1], j, P) for j in range(i + 1))
    if k == 'once':
        return any(py_past(t[1], j, P) for j in range(i + 1))
    if k == 'since':
        return any(py_past(t[2], j, P) and all(py_past(t[1], m, P) for m in range(j + 1, i + 1)) for j in range(i + 1))
    a, b = py_past(t[1], i, P), py_past(t[2], i, P)
    return {'and': a and b, 'or': a or b, 'implies': (not a) or b, 'equiv': a == b}[k]


# ------------------------------------------------------------------ past formulas on finite traces

def check_past(formulas, L):
    import z3
    import omega.logic.past as past
    out = []
    for t in formulas:
        t = core_tuple(t)
        s = to_str(t)
        name = f'past L={L} {s}'
        sample = dict(formula=s, L=L)
        t1 = time.time()
        try:
            dvars, r, init, trans, win = past.translate(s)
        except Exception as e:  # noqa
            out.append(core.res(name, 'violation', sample=sample, nontrivial=True, functions=FUNCS,
                                signature=f'translate:{type(e).__name__}', detail=f'translate({s!r}) raised {type(e).__name__}: {e}',
                                cex=dict(kind='raise', formula=list_tree(t))))
            continue
        aux = sorted(dvars)
        names = VARS + aux
        try:
            R, I, T = _parse(r, names), _parse(init, names), _parse(trans, names)
        except Exception as e:  # noqa
            out.append(core.res(name, 'inconclusive', sample=sample, detail=f'cannot re-read translate output: {e}'))
            continue
        sample.update(translated=r, init=init, trans=' '.join(trans.split()), aux=aux)
        P = {v: [z3.Bool(f'{v}@{i}') for i in range(L)] for v in VARS}
        P.update({v: [z3.Int(f'{v}@{i}') for i in range(L)] for v in INTS})

        def mk(tag):
            A = {a: [z3.Bool(f'{a}{tag}@{i}') for i in range(L)] for a in aux}

            def val_at(i):
                def val(nm, np):
                    j = i + np
                    if j >= L:
                        raise IndexError
                    return (P[nm] if nm in P else A[nm])[j]
                return val
            cons = [_ev(I, val_at(0))] + [_ev(T, val_at(i)) for i in range(L - 1)]
            return A, cons, val_at
        A, cons, val_at = mk('')
        A2, cons2, _ = mk('#')
        q = {}
        problems = []

        def chk(fs):
            sol = z3.Solver()
            sol.set('timeout', SOLVER_MS)
            sol.add(*fs)
            r_ = str(sol.check())
            q[r_] = q.get(r_, 0) + 1
            return r_, (sol.model() if r_ == 'sat' else None)
        # agreement at every position
        npr = _max_primes(R)
        dis = [(_ev(R, val_at(i)) != ref_past(t, i, P)) for i in range(L - npr)]
        r_, m = chk(cons + [z3.Or(dis)])
        if r_ != 'unsat':
            problems.append(('agreement', r_, m))
        # uniqueness
        if aux:
            r_, m = chk(cons + cons2 + [z3.Or([A[a][i] != A2[a][i] for a in aux for i in range(L)])])
            if r_ != 'unsat':
                problems.append(('uniqueness', r_, m))
            # existence (QBF): some variable trace without any auxiliary solution
            avars = [A[a][i] for a in aux for i in range(L)]
            r_, m = chk([z3.ForAll(avars, z3.Not(z3.And(cons)))])
            if r_ != 'unsat':
                problems.append(('existence', r_, m))
        dt = time.time() - t1
        nontriv = any(k in s for k in ('-X', '--X', '-[]', '-<>', ' S '))
        if not problems:
            out.append(core.res(name, 'holds', queries=q, solver_s=dt, sample=sample, nontrivial=nontriv, functions=FUNCS))
            continue
        label, r_, m = problems[0]
        if r_ != 'sat':
            out.append(core.res(name, 'inconclusive', queries=q, solver_s=dt, sample=sample, detail=f'{label}: {r_}'))
            continue
        trace = {v: [z3.is_true(m.eval(P[v][i], model_completion=True)) for i in range(L)] for v in VARS}
        if any(n in s for n in ('x', 'y')):
            trace.update({v: [m.eval(P[v][i], model_completion=True).as_long() for i in range(L)] for v in INTS})
        cex = dict(kind='past', formula=list_tree(t), L=L, trace=trace, label=label)
        ok, why = replay(dict(cex=cex))
        out.append(core.res(name, 'violation' if ok else 'inconclusive', queries=q, solver_s=dt, sample=sample,
                            nontrivial=True, functions=FUNCS, signature=_signature(t, label),
                            detail=f'{s}: {label} fails on trace {trace}: {why}', cex=cex))
    return out


def _signature(t, label):
    """Class of the failing input, for known findings."""
    s = to_str(t)
    consts = ('(-X TRUE)', '(-X FALSE)', '(--X TRUE)', '(--X FALSE)')
    if any(c in s for c in consts):
        return f'past:{label}:previous-of-constant'
    for v in VARS:
        if f'(-X {v})' in s and f'(--X {v})' in s:
            return f'past:{label}:weak-and-strong-previous-of-same-variable'
    return f'past:{label}'


def core_tuple(x):
    if isinstance(x, (list, tuple)):
        return tuple(core_tuple(y) for y in x)
    return x


def list_tree(t):
    return [list_tree(x) if isinstance(x, tuple) else x for x in t]


def replay(payload):
    """Concrete trace: solve the testers by brute force over auxiliary values (no z3)."""
    import omega.logic.past as past
    c = payload['cex']
    t = core_tuple(c['formula'])
    s = to_str(t)
    try:
        dvars, r, init, trans, win = past.translate(s, until=c.get('until', False))
    except Exception as e:  # noqa
        return True, f'translate raised {type(e).__name__}: {e}'
    if c['kind'] == 'raise':
        return False, 'translate accepted the formula'
    if c['kind'] != 'past':
        return replay_future(c, t, dvars, r, init, trans, win)
    L = c['L']
    trace = c['trace']
    aux = sorted(dvars)
    names = VARS + aux
    R, I, T = _parse(r, names), _parse(init, names), _parse(trans, names)

    def evp(tree, i, A):
        def val(nm, np):
            return (trace[nm] if nm in trace else A[nm])[i + np]
        return _evpy(tree, val)
    def partial(A, n):
        # positions 0 .. n-1 assigned: the initial condition and the last complete step
        try:
            return (evp(I, 0, A) if n == 1 else True) and (evp(T, n - 2, A) if n >= 2 else True)
        except IndexError:
            return True
    sols = _solve_aux(aux, L, partial, lambda A: evp(I, 0, A) and all(evp(T, i, A) for i in range(L - 1)))
    if len(sols) == 0:
        return True, 'no auxiliary values satisfy the initial condition and transition relation on this trace'
    if len(sols) > 1 and aux:
        return True, 'two different auxiliary traces satisfy the testers on this trace'
    A = sols[0]
    npr = _max_primes(R)
    for i in range(L - npr):
        got = evp(R, i, A)
        want = py_past(t, i, trace)
        if got != want:
            return True, f'at position {i} the translated formula is {got}, the original is {want}'
    return False, 'testers have exactly one solution and the translated formula agrees at every position'


def _solve_aux(aux, L, partial, full, limit=2):
    """Auxiliary traces (no z3): depth-first over positions, pruned by `partial` after each position, at most
    `limit` solutions. Equivalent to trying all 2^(|aux| * L) traces, without the cost."""
    vals = list(itertools.product([False, True], repeat=len(aux)))
    sols = []

    def rec(prefix):
        if len(sols) >= limit:
            return
        n = len(prefix)
        A = {a: [v[k] for v in prefix] for k, a in enumerate(aux)}
        if n == L:
            if full(A):
                sols.append(A)
            return
        for v in vals:
            pre = prefix + [v]
            B = {a: A[a] + [v[k]] for k, a in enumerate(aux)}
            if partial(B, n + 1):
                rec(pre)
    rec([])
    return sols


def _evpy(t, val):
    k = t[0]
    if k == 'v':
        return val(t[1], t[2])
    if k == 'c':
        return t[1]
    if k == 'not':
        return not _evpy(t[1], val)
    if k == 'n':
        return t[1]
    if k in ('cmp', 'ar'):
        return _OPS[t[1]](_evpy(t[2], val), _evpy(t[3], val))
    a, b = _evpy(t[1], val), _evpy(t[2], val)
    if k == 'ite':
        return b if a else _evpy(t[3], val)
    return {'and': a and b, 'or': a or b, 'implies': (not a) or b, 'equiv': a == b, 'xor': a != b}[k]


# ------------------------------------------------------------------ until=True on lassos

def ref_future(t, L, P, loop):
    """dict position -> z3 truth of future formula t on the lasso (loop[l]: last position returns to l)."""
    import z3
    memo = {}

    def nxt(vals):
        return [vals[i + 1] if i < L - 1 else z3.Or([z3.And(loop[l], vals[l]) for l in range(L)]) for i in range(L)]

    def rec(t):
        key = t
        if key in memo:
            return memo[key]
        k = t[0]
        if k == 'var':
            r = list(P[t[1]])
        elif k == 'const':
            r = [z3.BoolVal(t[1])] * L
        elif k == 'not':
            r = [z3.Not(x) for x in rec(t[1])]
        elif k == 'next':
            r = nxt(rec(t[1]))
        elif k in ('until', 'eventually', 'always'):
            if k == 'until':
                a, b = rec(t[1]), rec(t[2])
            elif k == 'eventually':
                a, b = [z3.BoolVal(True)] * L, rec(t[1])
            else:
                a, b = [z3.BoolVal(True)] * L, [z3.Not(x) for x in rec(t[1])]
            v = [z3.BoolVal(False)] * L
            for _ in range(L + 1):
                nv = nxt(v)
                v = [z3.Or(b[i], z3.And(a[i], nv[i])) for i in range(L)]
            r = [z3.Not(x) for x in v] if k == 'always' else v
        else:
            a, b = rec(t[1]), rec(t[2])
            f = {'and': z3.And, 'or': z3.Or, 'implies': z3.Implies, 'equiv': lambda x, y: x == y}[k]
            r = [f(a[i], b[i]) for i in range(L)]
        memo[key] = r
        return r
    return rec(t)


def check_future(formulas, L):
    import z3
    import omega.logic.past as past
    out = []
    for t in formulas:
        t = core_tuple(t)
        s = to_str(t)
        name = f'until L={L} {s}'
        sample = dict(formula=s, L=L, until=True)
        t1 = time.time()
        try:
            dvars, r, init, trans, win = past.translate(s, until=True)
        except Exception as e:  # noqa
            out.append(core.res(name, 'violation', sample=sample, nontrivial=True, functions=FUNCS,
                                signature=f'translate-until:{type(e).__name__}',
                                detail=f'translate({s!r}, until=True) raised {type(e).__name__}: {e}',
                                cex=dict(kind='raise', formula=list_tree(t), until=True)))
            continue
        aux = sorted(dvars)
        names = VARS + aux
        try:
            R, I, T = _parse(r, names), _parse(init, names), _parse(trans, names)
            Wn = [_parse(w, names) for w in win]
        except Exception as e:  # noqa
            out.append(core.res(name, 'inconclusive', sample=sample, detail=f'cannot re-read translate output: {e}'))
            continue
        sample.update(translated=r, init=init, trans=' '.join(trans.split()), win=win, aux=aux)
        P = {v: [z3.Bool(f'{v}@{i}') for i in range(L)] for v in VARS}
        loop = [z3.Bool(f'loop@{l}') for l in range(L)]
        one_hot = [z3.Or(loop)] + [z3.Not(z3.And(loop[a], loop[b])) for a in range(L) for b in range(a + 1, L)]

        def mk(tag):
            A = {a: [z3.Bool(f'{a}{tag}@{i}') for i in range(L)] for a in aux}

            def seq(nm):
                return P[nm] if nm in P else A[nm]

            def at(nm, i, np):
                vals = seq(nm)
                for _ in range(np):
                    vals = [vals[j + 1] if j < L - 1 else z3.Or([z3.And(loop[l], vals[l]) for l in range(L)])
                            for j in range(L)]
                return vals[i]

            def val_at(i):
                return lambda nm, np: at(nm, i, np)
            cons = [_ev(I, val_at(0))] + [_ev(T, val_at(i)) for i in range(L)]
            for w in Wn:
                # recurrence: holds at some position inside the loop
                cons.append(z3.Or([z3.And(z3.Or([loop[l] for l in range(i + 1)]), _ev(w, val_at(i))) for i in range(L)]))
            return A, cons, val_at
        A, cons, val_at = mk('')
        A2, cons2, _ = mk('#')
        refv = ref_future(t, L, P, loop)
        q = {}
        problems = []

        def chk(fs):
            sol = z3.Solver()
            sol.set('timeout', SOLVER_MS)
            sol.add(*fs)
            r_ = str(sol.check())
            q[r_] = q.get(r_, 0) + 1
            return r_, (sol.model() if r_ == 'sat' else None)
        r_, m = chk(one_hot + cons + [z3.Or([_ev(R, val_at(i)) != refv[i] for i in range(L)])])
        if r_ != 'unsat':
            problems.append(('agreement', r_, m))
        if aux:
            r_, m = chk(one_hot + cons + cons2 + [z3.Or([A[a][i] != A2[a][i] for a in aux for i in range(L)])])
            if r_ != 'unsat':
                problems.append(('uniqueness', r_, m))
            avars = [A[a][i] for a in aux for i in range(L)]
            r_, m = chk(one_hot + [z3.ForAll(avars, z3.Not(z3.And(cons)))])
            if r_ != 'unsat':
                problems.append(('existence', r_, m))
        dt = time.time() - t1
        nontriv = any(k in s for k in (' U ', '[]', '<>'))
        if not problems:
            out.append(core.res(name, 'holds', queries=q, solver_s=dt, sample=sample, nontrivial=nontriv, functions=FUNCS))
            continue
        label, r_, m = problems[0]
        if r_ != 'sat':
            out.append(core.res(name, 'inconclusive', queries=q, solver_s=dt, sample=sample, detail=f'{label}: {r_}'))
            continue
        trace = {v: [z3.is_true(m.eval(P[v][i], model_completion=True)) for i in range(L)] for v in VARS}
        lp = [l for l in range(L) if z3.is_true(m.eval(loop[l], model_completion=True))][0]
        cex = dict(kind='future', formula=list_tree(t), L=L, trace=trace, loop=lp, label=label, until=True)
        ok, why = replay(dict(cex=cex))
        out.append(core.res(name, 'violation' if ok else 'inconclusive', queries=q, solver_s=dt, sample=sample,
                            nontrivial=True, functions=FUNCS, signature=f'until:{label}',
                            detail=f'{s}: {label} fails on lasso {trace} looping to {lp}: {why}', cex=cex))
    return out


def py_future(t, L, P, lp):
    succ = lambda i: i + 1 if i < L - 1 else lp
    memo = {}

    def rec(t):
        if t in memo:
            return memo[t]
        k = t[0]
        if k == 'var':
            r = list(P[t[1]])
        elif k == 'const':
            r = [t[1]] * L
        elif k == 'not':
            r = [not x for x in rec(t[1])]
        elif k == 'next':
            v = rec(t[1])
            r = [v[succ(i)] for i in range(L)]
        elif k in ('until', 'eventually', 'always'):
            if k == 'until':
                a, b = rec(t[1]), rec(t[2])
            elif k == 'eventually':
                a, b = [True] * L, rec(t[1])
            else:
                a, b = [True] * L, [not x for x in rec(t[1])]
            v = [False] * L
            for _ in range(L + 1):
                v = [b[i] or (a[i] and v[succ(i)]) for i in range(L)]
            r = [not x for x in v] if k == 'always' else v
        else:
            a, b = rec(t[1]), rec(t[2])
            f = {'and': lambda x, y: x and y, 'or': lambda x, y: x or y, 'implies': lambda x, y: (not x) or y,
                 'equiv': lambda x, y: x == y}[k]
            r = [f(a[i], b[i]) for i in range(L)]
        memo[t] = r
        return r
    return rec(t)


def replay_future(c, t, dvars, r, init, trans, win):
    L, trace, lp = c['L'], c['trace'], c['loop']
    aux = sorted(dvars)
    names = VARS + aux
    R, I, T = _parse(r, names), _parse(init, names), _parse(trans, names)
    Wn = [_parse(w, names) for w in win]
    succ = lambda i: i + 1 if i < L - 1 else lp

    def evp(tree, i, A):
        def val(nm, np):
            j = i
            for _ in range(np):
                j = succ(j)
            return (trace[nm] if nm in trace else A[nm])[j]
        return _evpy(tree, val)
    def partial(A, n):
        try:
            return (evp(I, 0, A) if n == 1 else True) and (evp(T, n - 2, A) if n >= 2 else True)
        except IndexError:
            return True
    sols = _solve_aux(aux, L, partial,
                      lambda A: evp(I, 0, A) and all(evp(T, i, A) for i in range(L)) and
                      all(any(evp(w, i, A) for i in range(lp, L)) for w in Wn))
    if not sols:
        return True, 'no auxiliary values satisfy the testers with fairness on this lasso'
    if len(sols) > 1 and aux:
        return True, 'two different auxiliary traces satisfy the testers on this lasso'
    ref = py_future(t, L, trace, lp)
    for i in range(L):
        got = evp(R, i, sols[0])
        if got != ref[i]:
            return True, f'at position {i} the translated formula is {got}, the original is {ref[i]}'
    return False, 'unique solution and agreement'


def run(tier, seed, t0, only=None):
    rnd = random.Random(seed)
    d1 = all_depth1()
    n2, n3 = (600, 300) if tier == 'quick' else (4000, 3000)
    seen = set()
    past_f = []
    for t in (d1 + [gen(rnd, 2, UN_PAST, BIN_PAST) for _ in range(n2)] + [gen(rnd, 3, UN_PAST, BIN_PAST) for _ in range(n3)]
              + [gen(rnd, 2, UN_PAST, BIN_PAST, ints=True) for _ in range(n2 // 3)]
              + [gen(rnd, 3, UN_PAST, BIN_PAST, ints=True) for _ in range(n3 // 3)]):
        if t not in seen:
            seen.add(t)
            past_f.append(t)
    nf = 150 if tier == 'quick' else 1500
    fut_f = []
    for t in [gen(rnd, 2, UN_FUT, BIN_FUT) for _ in range(nf)] + [gen(rnd, 3, UN_FUT, BIN_FUT) for _ in range(nf // 3)]:
        if t not in seen and any(k in to_str(t) for k in (' U ', '[]', '<>')):
            seen.add(t)
            fut_f.append(t)
    Lp = 6 if tier == 'quick' else 8
    Lf = 4 if tier == 'quick' else 6
    tasks = []
    for i in range(0, len(past_f), 12):
        tasks.append(dict(mod='vlib.props.c15', fn='check_past', kw=dict(formulas=[list_tree(t) for t in past_f[i:i + 12]], L=Lp),
                          timeout=1800, name=f'past[{i}]'))
    for i in range(0, len(fut_f), 6):
        tasks.append(dict(mod='vlib.props.c15', fn='check_future', kw=dict(formulas=[list_tree(t) for t in fut_f[i:i + 6]], L=Lf),
                          timeout=1800, name=f'until[{i}]'))
    if only:
        tasks = [t for t in tasks if only in t['name']]
    results = core.run_tasks(tasks)
    return core.finish(
        PID, tier, seed, 'model_checking', results, t0, files=FILES,
        bounds=dict(variables=VARS, integer_atoms=[to_str(a) for a in INT_ATOMS], past=f'all {len(d1)} formulas of depth 1, seeded depth 2-3 ({len(past_f)} distinct), traces of length {Lp}',
                    until=f'{len(fut_f)} seeded future-only formulas (U, [], <>, X) of depth <= 3 on lassos of length {Lf} with symbolic loop point'),
        rule='one obligation per formula: agreement at every position, uniqueness, existence (QBF) over the whole symbolic '
             'trace. Non-trivial = the formula contains a temporal operator; distinct formulas',
        assumptions=['z3 (incl. small QBF)', 'omega\'s parser is used to re-read the strings returned by translate',
                     'anchored past semantics: weak previous true and strong previous false at position 0',
                     'past operators depend only on the prefix, so L bounds only the depth of history explored'],
        outside=['past operators nested inside future operators (and vice versa) with until=True', 'arithmetic operands',
                 'trigger T, release R, weak until W'])
