"""CrossHair harnesses for the integer<->bit glue copied into generated programs (C13)."""
from typing import Optional

import omega.logic.bitvector as bv
import omega.symbolic.codegen as cg

TABLE = bv.bitblast_table(dict(
    a=dict(type='bool'), x=dict(type='int', dom=(0, 5)), y=dict(type='int', dom=(-3, 2)),
    z=dict(type='int', dom=(-3, -1))))
RANGE = dict(x=(0, 7), y=(-4, 3), z=(-4, -1))


def _bit(x, w, i):
    return bool(((x % 2 ** w) >> i) & 1)


def prop_int_to_bits(x: int, width: int, shape: int) -> bool:
    """
    pre: 1 <= width <= 4
    pre: 0 <= shape <= 2
    pre: -16 <= x <= 15
    post: _
    """
    if shape == 0 and not (0 <= x <= 2 ** width - 1):
        return True
    if shape == 1 and not (width >= 2 and -2 ** (width - 1) <= x <= 2 ** (width - 1) - 1):
        return True
    if shape == 2 and not (-2 ** width <= x <= -1):
        return True
    bits = cg.int_to_bits(x, width)
    return len(bits) >= width and all(bits[i] == _bit(x, width, i) for i in range(width))


def reach_int_to_bits(x: int, width: int, shape: int) -> bool:
    """
    pre: 1 <= width <= 4
    pre: 0 <= shape <= 2
    pre: -16 <= x <= 15
    post: not _
    """
    return shape == 2 and -2 ** width <= x <= -1 and len(cg.int_to_bits(x, width)) >= 1


def prop_assign_bitvectors(y: int, z: int, a: bool, with_bool: bool) -> bool:
    """
    pre: -4 <= y <= 3
    pre: -4 <= z <= -1
    post: _
    """
    state = dict(y=y, z=z)
    if with_bool:
        state['a'] = a
    bvs = cg.assign_bitvectors(state, TABLE)
    ok = (not with_bool) or (bvs['a'] is a)
    for name, val in (('y', y), ('z', z)):
        w = len(TABLE[name]['bitnames'])
        ok = ok and all(bvs[name][i] == _bit(val, w, i) for i in range(w))
    return ok


def reach_assign_bitvectors(y: int, z: int, a: bool, with_bool: bool) -> bool:
    """
    pre: -4 <= y <= 3
    pre: -4 <= z <= -1
    post: not _
    """
    return len(cg.assign_bitvectors(dict(y=y, z=z), TABLE)) == 2


def prop_out_bits_to_ints(a: bool, x0: bool, x1: bool, x2: bool, y0: bool, y1: bool, y2: bool,
                          z0: bool, z1: bool) -> bool:
    """
    post: _
    """
    state = dict(a=a, x_0=x0, x_1=x1, x_2=x2, y_0=y0, y_1=y1, y_2=y2, z_0=z0, z_1=z1)
    got = bv.bitfields_to_ints(state, TABLE)
    x = x0 + 2 * x1 + 4 * x2
    y = y0 + 2 * y1 - 4 * y2
    z = z0 + 2 * z1 - 4
    return got == dict(a=a, x=x, y=y, z=z)


def reach_out_bits_to_ints(a: bool, x0: bool, x1: bool, x2: bool, y0: bool, y1: bool, y2: bool,
                           z0: bool, z1: bool) -> bool:
    """
    post: not _
    """
    state = dict(a=a, x_0=x0, x_1=x1, x_2=x2, y_0=y0, y_1=y1, y_2=y2, z_0=z0, z_1=z1)
    return len(bv.bitfields_to_ints(state, TABLE)) == 4
