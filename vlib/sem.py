"""Reference semantics of omega formulas, independent of the bitblaster.

Trees are nested tuples:

  arithmetic:  ('var', name, primed)  ('num', k)  ('arith', op, a, b)
               ('ite', c, a, b)  ('ref', name)
  Boolean:     ('bvar', name, primed)  ('const', bool)
               ('cmp', op, a, b)  ('beq', op, p, q)      op: = # < <= > >=
               ('not', p)  ('bin', op, p, q)  op: and or implies equiv xor
               ('bite', c, p, q)  ('in', a, lo, hi)
               ('forall', [names], p)  ('exists', [names], p)
               ('let', [(name, tree)], body)  ('bref', name)

Three interpretations: `to_str` (what is handed to omega, fully
parenthesised), `to_z3` (64-bit bit-vector arithmetic, finite expansion of
quantifiers over representable values), `eval_py` (plain Python).
`from_omega` converts a tree produced by omega's own parser (used only to
re-read strings *printed* by omega).
"""
import z3

from vlib import link

W = link.W

ARITH = ('+', '-', '*', '/', '%')
CMP = ('=', '#', '<', '<=', '>', '>=')
CMP_SPELL = {
    '=': ['='], '#': ['#', '!=', '/='], '<': ['<'], '<=': ['<=', '=<'],
    '>': ['>'], '>=': ['>=']}
BIN_SPELL = {
    'and': ['/\\', '&', '&&'], 'or': ['\\/', '|', '||'],
    'implies': ['=>', '->'], 'equiv': ['<=>', '<->'], 'xor': ['^']}
NOT_SPELL = ['~', '!']


class SemError(Exception):
    pass


def is_arith(t):
    return t[0] in ('var', 'num', 'arith', 'ite', 'ref', 'aprime')


# ---------------------------------------------------------------- printing

def to_str(t, spell=None):
    """Fully parenthesised omega syntax. `spell(kind, op)` may pick an
    alternative spelling of an operator."""
    def sp(kind, op, default):
        if spell is None:
            return default
        return spell(kind, op, default)

    def rec(t):
        k = t[0]
        if k == 'var' or k == 'bvar':
            return t[1] + ("'" if t[2] else '')
        if k == 'num':
            return str(t[1])
        if k == 'const':
            return 'TRUE' if t[1] else 'FALSE'
        if k in ('ref', 'bref'):
            return t[1]
        if k in ('aprime', 'bprime'):
            return f"({rec(t[1])})'"
        if k == 'arith':
            return f'({rec(t[2])} {t[1]} {rec(t[3])})'
        if k == 'cmp' or k == 'beq':
            op = sp('cmp', t[1], t[1])
            return f'({rec(t[2])} {op} {rec(t[3])})'
        if k == 'not':
            return f'({sp("not", "not", "~")} {rec(t[1])})'
        if k == 'bin':
            op = sp('bin', t[1], BIN_SPELL[t[1]][0])
            return f'({rec(t[2])} {op} {rec(t[3])})'
        if k == 'ite' or k == 'bite':
            style = sp('ite', 'ite', 'ite')
            if style == 'IF':
                return f'(IF {rec(t[1])} THEN {rec(t[2])} ELSE {rec(t[3])})'
            return f'ite({rec(t[1])}, {rec(t[2])}, {rec(t[3])})'
        if k == 'in':
            return f'({rec(t[1])} \\in {t[2]}..{t[3]})'
        if k in ('forall', 'exists'):
            q = '\\A' if k == 'forall' else '\\E'
            return f'({q} {", ".join(t[1])}: {rec(t[2])})'
        if k == 'let':
            defs = ' '.join(f'{n} == {rec(e)}' for n, e in t[1])
            return f'(LET {defs} IN {rec(t[2])})'
        raise SemError(f'unknown node {k}')
    return rec(t)


# ---------------------------------------------------------------- z3

class Env:
    """Maps identifiers to z3 terms built from bits via `link`."""

    def __init__(self, table, bits):
        self.table = table
        self.bits = bits
        self.bound = {}   # name -> z3 term (quantified / LET-bound value)
        self.defs = {}    # operator name -> tree
        self.force_prime = False   # inside a primed sub-expression every state variable is read primed

    def ivar(self, name, primed):
        # a variable bound by a quantifier is not touched by a prime that encloses the quantifier
        if not primed and name in self.bound:
            return self.bound[name]
        if primed and (name + "'") in self.bound:
            return self.bound[name + "'"]
        primed = primed or self.force_prime
        d = self.table[name]
        if d['type'] == 'bool':
            raise SemError(f'{name} is Boolean')
        return link.bv_of(name, d, self.bits, primed)

    def bvar(self, name, primed):
        key = name + ("'" if primed else '')
        if key in self.bound:
            return self.bound[key]
        primed = primed or self.force_prime
        key = name + ("'" if primed else '')
        d = self.table[name]
        if d['type'] != 'bool':
            raise SemError(f'{name} is not Boolean')
        return self.bits(key)

    def child(self):
        e = Env(self.table, self.bits)
        e.bound = dict(self.bound)
        e.defs = dict(self.defs)
        e.force_prime = self.force_prime
        return e

    def primed_copy(self):
        e = self.child()
        e.force_prime = True
        return e


def _bvv(k):
    return z3.BitVecVal(k, W)


def to_z3(t, env):
    """Return (term, defined) where `defined` is the condition under which the
    C99 meaning is determined (all divisors non-zero)."""
    guards = []

    def ar(t, env):
        k = t[0]
        if k == 'var':
            return env.ivar(t[1], t[2])
        if k == 'num':
            return _bvv(t[1])
        if k == 'ref':
            d = env.defs[t[1]]
            return ar(d, env)
        if k == 'aprime':
            return ar(t[1], env.primed_copy())
        if k == 'arith':
            a = ar(t[2], env)
            b = ar(t[3], env)
            op = t[1]
            if op == '+':
                return a + b
            if op == '-':
                return a - b
            if op == '*':
                return a * b
            guards.append(b != _bvv(0))
            if op == '/':
                return a / b          # bvsdiv: truncation toward zero
            if op == '%':
                return z3.SRem(a, b)  # sign follows the dividend (C99)
            raise SemError(op)
        if k == 'ite':
            return z3.If(bo(t[1], env), ar(t[2], env), ar(t[3], env))
        raise SemError(f'not arithmetic: {k}')

    def bo(t, env):
        k = t[0]
        if k == 'bvar':
            return env.bvar(t[1], t[2])
        if k == 'const':
            return z3.BoolVal(t[1])
        if k == 'bref':
            return bo(env.defs[t[1]], env)
        if k == 'bprime':
            return bo(t[1], env.primed_copy())
        if k == 'cmp':
            a = ar(t[2], env)
            b = ar(t[3], env)
            op = t[1]
            if op == '=':
                return a == b
            if op == '#':
                return a != b
            if op == '<':
                return a < b
            if op == '<=':
                return a <= b
            if op == '>':
                return a > b
            if op == '>=':
                return a >= b
            raise SemError(op)
        if k == 'beq':
            p = bo(t[2], env)
            q = bo(t[3], env)
            return (p == q) if t[1] == '=' else z3.Xor(p, q)
        if k == 'not':
            return z3.Not(bo(t[1], env))
        if k == 'bin':
            p = bo(t[2], env)
            q = bo(t[3], env)
            op = t[1]
            if op == 'and':
                return z3.And(p, q)
            if op == 'or':
                return z3.Or(p, q)
            if op == 'implies':
                return z3.Implies(p, q)
            if op == 'equiv':
                return p == q
            if op == 'xor':
                return z3.Xor(p, q)
            raise SemError(op)
        if k == 'bite':
            return z3.If(bo(t[1], env), bo(t[2], env), bo(t[3], env))
        if k == 'in':
            a = ar(t[1], env)
            return z3.And(_bvv(t[2]) <= a, a <= _bvv(t[3]))
        if k in ('forall', 'exists'):
            names = list(t[1])
            return quant(k, names, t[2], env)
        if k == 'let':
            e2 = env.child()
            for n, d in t[1]:
                e2.defs[n] = d
            return bo(t[2], e2)
        raise SemError(f'not Boolean: {k}')

    def quant(kind, names, body, env):
        if not names:
            return bo(body, env)
        name = names[0]
        primed = name.endswith("'")
        base = name[:-1] if primed else name
        d = env.table[base]
        parts = []
        if d['type'] == 'bool':
            values = [z3.BoolVal(False), z3.BoolVal(True)]
        else:
            lo, hi = link.rep_range(d)
            values = [_bvv(v) for v in range(lo, hi + 1)]
        for v in values:
            e2 = env.child()
            e2.bound[name] = v
            parts.append(quant(kind, names[1:], body, e2))
        return z3.And(parts) if kind == 'forall' else z3.Or(parts)

    r = bo(t, env) if not is_arith(t) else ar(t, env)
    return r, (z3.And(guards) if guards else z3.BoolVal(True))


# ---------------------------------------------------------------- python

class Undefined(Exception):
    """Division by zero: outside the claim."""


def _tdiv(a, b):
    if b == 0:
        raise Undefined()
    q = abs(a) // abs(b)
    return q if (a >= 0) == (b >= 0) else -q


def eval_py(t, table, values, defs=None):
    """Evaluate with Python ints. `values`: name (with prime) -> int/bool."""
    defs = defs or {}

    def rec(t, vals, defs, force=False):
        k = t[0]
        if k in ('var', 'bvar'):
            return vals[t[1] + ("'" if (t[2] or force) else '')]
        if k in ('aprime', 'bprime'):
            return rec(t[1], vals, defs, True)
        if force:
            # re-enter with the flag kept for every child
            return _forced(t, vals, defs)
        if k == 'num':
            return t[1]
        if k == 'const':
            return t[1]
        if k in ('ref', 'bref'):
            return rec(defs[t[1]], vals, defs)
        if k == 'arith':
            a = rec(t[2], vals, defs)
            b = rec(t[3], vals, defs)
            op = t[1]
            if op == '+':
                return a + b
            if op == '-':
                return a - b
            if op == '*':
                return a * b
            if op == '/':
                return _tdiv(a, b)
            if op == '%':
                return a - b * _tdiv(a, b)
        if k == 'cmp':
            a = rec(t[2], vals, defs)
            b = rec(t[3], vals, defs)
            return {'=': a == b, '#': a != b, '<': a < b, '<=': a <= b,
                    '>': a > b, '>=': a >= b}[t[1]]
        if k == 'beq':
            pv = bool(rec(t[2], vals, defs))
            qv = bool(rec(t[3], vals, defs))
            return (pv == qv) if t[1] == '=' else (pv != qv)
        if k == 'not':
            return not rec(t[1], vals, defs)
        if k == 'bin':
            op = t[1]
            pv = bool(rec(t[2], vals, defs))
            # no short circuit: undefinedness must propagate as in to_z3 guards
            qv = bool(rec(t[3], vals, defs))
            return {'and': pv and qv, 'or': pv or qv, 'implies': (not pv) or qv,
                    'equiv': pv == qv, 'xor': pv != qv}[op]
        if k in ('ite', 'bite'):
            c = rec(t[1], vals, defs)
            a = rec(t[2], vals, defs)
            b = rec(t[3], vals, defs)
            return a if c else b
        if k == 'in':
            a = rec(t[1], vals, defs)
            return t[2] <= a <= t[3]
        if k in ('forall', 'exists'):
            return q(k, list(t[1]), t[2], vals, defs)
        if k == 'let':
            d2 = dict(defs)
            for n, e in t[1]:
                d2[n] = e
            return rec(t[2], vals, d2)
        raise SemError(k)

    def _forced(t, vals, defs):
        return rec(_prime_all(t, defs), vals, {})

    def q(kind, names, body, vals, defs):
        if not names:
            return bool(rec(body, vals, defs))
        name = names[0]
        base = name[:-1] if name.endswith("'") else name
        d = table[base]
        if d['type'] == 'bool':
            rng = [False, True]
        else:
            lo, hi = link.rep_range(d)
            rng = range(lo, hi + 1)
        res = []
        for v in rng:
            v2 = dict(vals)
            v2[name] = v
            res.append(q(kind, names[1:], body, v2, defs))
        return all(res) if kind == 'forall' else any(res)

    return rec(t, values, defs)


def _prime_all(t, defs, bound=frozenset()):
    """Tree with every state variable primed and every reference expanded (plain Python replay)."""
    if not isinstance(t, tuple):
        return t
    k = t[0]
    if k in ('var', 'bvar'):
        return t if (t[1] in bound and not t[2]) else (k, t[1], True)
    if k in ('ref', 'bref'):
        return _prime_all(defs[t[1]], defs, bound)
    if k in ('aprime', 'bprime'):
        return _prime_all(t[1], defs, bound)
    if k == 'let':
        d2 = dict(defs)
        for n, e in t[1]:
            d2[n] = e
        return _prime_all(t[2], d2, bound)
    if k in ('forall', 'exists'):
        return (k, t[1], _prime_all(t[2], defs, frozenset(bound) | frozenset(t[1])))
    return tuple(_prime_all(c, defs, bound) if isinstance(c, tuple) else c for c in t)


# ---------------------------------------------------------------- widths

def width(t, table, defs=None):
    """Upper estimate of the two's complement width the bitblaster uses for
    arithmetic node `t` (documented growth: + - one bit, * sum of widths,
    / % width of dividend plus two)."""
    defs = defs or {}
    k = t[0]
    if k == 'var':
        d = table[t[1]]
        w = len(d['bitnames'])
        return w if d['signed'] else w + 1
    if k == 'num':
        return max(abs(t[1]).bit_length(), 1) + 1
    if k == 'ref':
        return width(defs[t[1]], table, defs)
    if k == 'aprime':
        return width(t[1], table, defs)
    if k == 'ite':
        return max(width(t[2], table, defs), width(t[3], table, defs))
    if k == 'arith':
        a = width(t[2], table, defs)
        b = width(t[3], table, defs)
        if t[1] in '+-':
            return max(a, b) + 1
        if t[1] == '*':
            return a + b
        return max(a, b) + 3
    raise SemError(k)


def max_width(t, table, defs=None):
    """Maximum arithmetic width anywhere in tree `t`."""
    defs = dict(defs or {})
    best = [0]

    def rec(t, defs):
        k = t[0]
        if is_arith(t):
            best[0] = max(best[0], width(t, table, defs))
        if k == 'let':
            d2 = dict(defs)
            for n, e in t[1]:
                rec(e, d2)
                d2[n] = e
            rec(t[2], d2)
            return
        for c in t[1:]:
            if isinstance(c, tuple) and c and isinstance(c[0], str) and c[0] in _KINDS:
                rec(c, defs)
    rec(t, defs)
    return best[0]


_KINDS = {'aprime', 'bprime', 'var', 'num', 'arith', 'ite', 'ref', 'bvar', 'const', 'cmp', 'beq',
          'not', 'bin', 'bite', 'in', 'forall', 'exists', 'let', 'bref'}


def free_vars(t):
    """Set of (name, primed) of variables occurring free in `t`."""
    out = set()

    def rec(t, bound, force=False):
        k = t[0]
        if k in ('aprime', 'bprime'):
            recp(t[1])
            return
        if k in ('var', 'bvar'):
            key = t[1] + ("'" if t[2] else '')
            if key not in bound:
                out.add((t[1], t[2]))
            return
        if k in ('forall', 'exists'):
            rec(t[2], bound | set(t[1]))
            return
        if k == 'let':
            for n, e in t[1]:
                rec(e, bound)
            rec(t[2], bound)
            return
        for c in t[1:]:
            if isinstance(c, tuple) and c and isinstance(c[0], str) and c[0] in _KINDS:
                rec(c, bound)
    def recp(t):
        # under a prime: every variable occurs primed; references are over-approximated by both copies
        if not isinstance(t, tuple):
            return
        if t[0] in ('var', 'bvar'):
            out.add((t[1], True))
            return
        for c in t[1:]:
            if isinstance(c, tuple):
                recp(c)
            elif isinstance(c, list):
                for n_e in c:
                    if isinstance(n_e, tuple):
                        recp(n_e[1])
    rec(t, frozenset())
    # a primed sub-expression may reach definitions: over-approximate by the primed copy of every variable
    names, has_prime = set(), [False]

    def walk(t):
        if isinstance(t, tuple):
            if t and t[0] in ('aprime', 'bprime'):
                has_prime[0] = True
            if t and t[0] in ('var', 'bvar'):
                names.add(t[1])
            for c in t[1:] if t and isinstance(t[0], str) else t:
                walk(c)
        elif isinstance(t, list):
            for c in t:
                walk(c)
    walk(t)
    if has_prime[0]:
        out.update((n, True) for n in names)
    return out


# ---------------------------------------------------------------- omega AST

def from_omega(node, table, defs=None):
    """Convert a tree from `omega.logic.lexyacc.Parser` to a sem tree.

    Type of identifiers comes from `table`. Used to re-read strings printed by
    omega (never to check the bitblaster against itself)."""
    defs = defs or {}

    def typ(node, primed=False):
        # returns ('a', tree) or ('b', tree)
        cls = type(node).__name__
        if cls == 'Var':
            name = node.value
            if name in defs:
                return defs[name]
            d = table[name]
            if d['type'] == 'bool':
                return ('b', ('bvar', name, primed))
            return ('a', ('var', name, primed))
        if cls == 'Num':
            return ('a', ('num', int(node.value)))
        if cls == 'Bool':
            return ('b', ('const', node.value.lower() == 'true'))
        op = node.operator
        xs = node.operands
        if cls == 'Unary':
            if op in ('X', "'"):
                return typ(xs[0], True)
            if op == '~':
                return ('b', ('not', need('b', xs[0], primed)))
            raise SemError(f'unary {op}')
        if cls == 'Arithmetic':
            return ('a', ('arith', op, need('a', xs[0], primed), need('a', xs[1], primed)))
        if cls == 'Comparator':
            c = {'!=': '#', '/=': '#', '=<': '<='}.get(op, op)
            ka, a = typ(xs[0], primed)
            kb, b = typ(xs[1], primed)
            if ka == 'a' and kb == 'a':
                return ('b', ('cmp', c, a, b))
            if ka == 'b' and kb == 'b' and c in ('=', '#'):
                return ('b', ('beq', c, a, b))
            raise SemError('ill-typed comparison')
        if cls == 'Binary':
            if op == '\\in':
                rng = xs[1]
                assert rng.operator == '..', rng
                lo, hi = (int(u.value) for u in rng.operands)
                return ('b', ('in', need('a', xs[0], primed), lo, hi))
            m = {'/\\': 'and', '\\/': 'or', '=>': 'implies', '<=>': 'equiv', '^': 'xor'}
            if op in m:
                return ('b', ('bin', m[op], need('b', xs[0], primed), need('b', xs[1], primed)))
            raise SemError(f'binary {op}')
        if cls == 'Operator':
            if op == 'ite':
                c = need('b', xs[0], primed)
                ka, a = typ(xs[1], primed)
                kb, b = typ(xs[2], primed)
                if ka != kb:
                    raise SemError('ill-typed ite')
                return (ka, (('ite' if ka == 'a' else 'bite'), c, a, b))
            if op in ('\\A', '\\E'):
                params, body = xs
                names = [v.value for v in params.operands]
                return ('b', (('forall' if op == '\\A' else 'exists'), names,
                              need('b', body, primed)))
            raise SemError(f'operator {op}')
        raise SemError(f'node {cls}')

    def need(kind, node, primed):
        k, t = typ(node, primed)
        if k != kind:
            raise SemError(f'expected {kind} got {k}')
        return t

    return typ(node)[1]
