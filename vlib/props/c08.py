"""C08 — a formula printed from a BDD is equivalent to it on the care set and re-parses.

Per (predicate U, care set CARE, printing options): the real `Context.to_expr` runs; the
returned string is re-read with omega's parser (re-parse = obligation 0) and interpreted
by `sem` *over integers* (never through `add_expr`).  z3 decides, for every integer point
of the bit ranges:
     CARE /\\ (U xor G)                         unsat
and per disjunct B_i of the listed cover (`orthotopes.list_expr`):
     B_i is a conjunction of interval constraints, B_i sat (non-empty box),
     B_i /\\ CARE /\\ ~U  unsat,   U [/\\ CARE when hints are shown] /\\ ~\\/ B_i  unsat.
The literal placeholder line `care expression` that `dumps_cover` prints when
CARE # TRUE (pinned by tests/cover_test.py) stands for the care predicate and is read
as TRUE on the care set.
"""
import random
import time

from vlib import core
from vlib.props import c09

PID = 'C08'
FILES = ['omega/symbolic/cover.py', 'omega/symbolic/orthotopes.py', 'omega/symbolic/_type_hints.py',
         'omega/symbolic/fol.py', 'omega/logic/syntax.py']
FUNCS = ['fol.Context.to_expr', 'cover.minimize', 'cover.dumps_cover', 'orthotopes.list_expr',
         '_type_hints._clip_subrange', '_type_hints._check_type_hint', '_type_hints._list_type_hints',
         '_type_hints._list_limits', 'syntax.vertical_op', 'cover._care_implies_type_hints']
OPTIONS = [dict(), dict(show_dom=True), dict(show_limits=True), dict(show_dom=True, show_limits=True, comment=False),
           dict(comment=False)]
SOLVER_MS = 120000


def _atoms_ok(tree):
    """Conjunction of `x = c` / `x in a..b` atoms (or TRUE)?"""
    k = tree[0]
    if k == 'const':
        return tree[1] is True
    if k == 'bin' and tree[1] == 'and':
        return _atoms_ok(tree[2]) and _atoms_ok(tree[3])
    if k == 'cmp' and tree[1] == '=':
        return tree[2][0] == 'var' and tree[3][0] == 'num'
    if k == 'in':
        return tree[1][0] == 'var'
    return False


def check_instances(instances):
    import z3
    import omega.logic.lexyacc as lexyacc
    import omega.symbolic.cover as cov
    import omega.symbolic.orthotopes as lat
    from vlib import bdd2smt, link, sem
    parser = lexyacc.Parser()
    out = []
    for inst in instances:
        ctx, names, ranges, pts, f, care, desc = c09.build(inst)
        if f == ctx.false or care == ctx.false or (f == ctx.true and care == ctx.true):
            continue
        exp = bdd2smt.Exporter(ctx.bdd)
        bits = exp.bits
        U, CARE = exp.export(f), exp.export(care)
        table = {n: ctx.vars[n] for n in names}
        env = sem.Env(table, bits)
        for oi, opts in enumerate(OPTIONS):
            if inst.get('opts') is not None and oi not in inst['opts']:
                continue
            name = f'to_expr {inst["decl"]} {desc[:70]} options={opts}'
            sample = dict(decl=c09.DECLS[inst['decl']], instance=desc[:200], options=opts)
            t1 = time.time()
            try:
                s = ctx.to_expr(f, care=care, **opts)
            except Exception as e:  # noqa
                import traceback
                where = traceback.extract_tb(e.__traceback__)[-1]
                out.append(core.res(name, 'violation', sample=sample, nontrivial=True, functions=FUNCS,
                                    signature=f'to_expr:{type(e).__name__}@{where.name}',
                                    detail=f'to_expr raised {type(e).__name__} at {where.name}:{where.lineno}: {str(e)[:100]} on {desc[:150]}',
                                    cex=dict(inst=inst, opts=oi, kind='raise')))
                continue
            sample['printed'] = s[-400:]
            text = s.replace('care expression', 'TRUE')
            problems = []
            q = {}
            try:
                tree = sem.from_omega(parser.parse(text), table)
                G = sem.to_z3(tree, env)[0]
            except Exception as e:  # noqa
                problems.append(f'printed formula is not accepted by the parser / not a formula over the variables: {type(e).__name__}: {str(e)[:80]}')
                G = None

            def chk(fs):
                sol = z3.Solver()
                sol.set('timeout', SOLVER_MS)
                sol.add(*fs)
                r = str(sol.check())
                q[r] = q.get(r, 0) + 1
                return r, (sol.model() if r == 'sat' else None)
            point = None
            if G is not None:
                r, m = chk([CARE, z3.Xor(U, G)])
                if r == 'sat':
                    point = link.model_values(m, table, bits)
                    problems.append(f'printed formula differs from the predicate at care point {point}')
                elif r != 'unsat':
                    problems.append('solver unknown')
            # per-disjunct obligations on the listed cover
            try:
                cover = cov.minimize(f, care, ctx)
                prm = lat.setup_aux_vars(f, care, ctx)
                use_dom = bool(opts.get('show_dom')) and cov._care_implies_type_hints(f, care, ctx)
                disj = lat.list_expr(cover, prm, ctx, use_dom=use_dom)
            except Exception as e:  # noqa
                problems.append(f'listing the cover raised {type(e).__name__}: {str(e)[:80]}')
                disj = []
            Bs = []
            for d in disj:
                try:
                    bt = sem.from_omega(parser.parse(d), table)
                except Exception as e:  # noqa
                    problems.append(f'disjunct {d!r} does not parse: {e}')
                    continue
                if not _atoms_ok(bt):
                    problems.append(f'disjunct {d!r} is not a conjunction of interval constraints')
                Bz = sem.to_z3(bt, env)[0]
                Bs.append(Bz)
                r, m = chk([Bz])
                if r != 'sat':
                    problems.append(f'disjunct {d!r} is an empty box')
                r, m = chk([Bz, CARE, z3.Not(U)])
                if r == 'sat':
                    point = link.model_values(m, table, bits)
                    problems.append(f'disjunct {d!r} contains care point {point} outside the predicate')
            if disj:
                r, m = chk([U] + ([CARE] if use_dom else []) + [z3.Not(z3.Or(Bs))])
                if r == 'sat':
                    point = link.model_values(m, table, bits)
                    problems.append(f'point {point} of the predicate is in no disjunct')
            dt = time.time() - t1
            sample['disjuncts'] = len(disj)
            if not problems:
                out.append(core.res(name, 'holds', queries=q, solver_s=dt, sample=sample, nontrivial=len(disj) >= 2,
                                    functions=FUNCS))
            elif problems == ['solver unknown']:
                out.append(core.res(name, 'inconclusive', queries=q, solver_s=dt, sample=sample, detail='solver unknown'))
            else:
                cex = dict(inst=inst, opts=oi, kind='semantic', point=point)
                ok, why = replay(dict(cex=cex))
                out.append(core.res(name, 'violation' if ok else 'inconclusive', queries=q, solver_s=dt, sample=sample,
                                    nontrivial=True, functions=FUNCS, signature='to_expr:' + problems[0].split(' ')[0] + ':' + problems[0].split(' ')[1],
                                    detail=f'{desc[:150]} options={opts}: {problems[0]}; replay: {why}', cex=cex))
    return out


def replay(payload):
    """Point-wise, without z3: evaluate the printed formula with sem.eval_py at every domain point."""
    import omega.logic.lexyacc as lexyacc
    from vlib import coverlib, sem
    c = payload['cex']
    ctx, names, ranges, pts, f, care, desc = c09.build(c['inst'])
    opts = OPTIONS[c['opts']]
    try:
        s = ctx.to_expr(f, care=care, **opts)
    except Exception as e:  # noqa
        return True, f'to_expr raised {type(e).__name__}: {e}'
    table = {n: ctx.vars[n] for n in names}
    try:
        tree = sem.from_omega(lexyacc.Parser().parse(s.replace('care expression', 'TRUE')), table)
    except Exception as e:  # noqa
        return True, f'printed formula does not parse: {type(e).__name__}: {e}'
    F = coverlib.truth_table(ctx, f, names, pts)
    CARE = coverlib.truth_table(ctx, care, names, pts)
    for p in pts:
        if CARE[p]:
            g = bool(sem.eval_py(tree, table, dict(zip(names, p))))
            if g != F[p]:
                return True, f'at {dict(zip(names, p))} the printed formula is {g}, the predicate is {F[p]}'
    return False, 'printed formula agrees with the predicate at every care point (disjunct-level obligations: re-run the check)'


def run(tier, seed, t0, only=None):
    rnd = random.Random(seed)
    insts = []
    nb = 25 if tier == 'quick' else 400
    for d in ('g44', 'g333', 's', 'n', 'm', 'g88', 'b3', 'p'):
        insts += [c09.instance('boxes', d, seed * 1000 + i) for i in range(nb)]
    for d in ('g333', 's', 'n', 'm', 'p'):
        insts += [c09.instance('partial', d, seed * 1000 + i) for i in range(nb)]
    for d in ('g44', 's', 'n', 'p'):
        nbits = 32 if d == 'p' else 16
        for _ in range(nb):
            m = rnd.getrandbits(nbits) or 1
            insts.append(c09.instance('mask', d, (m, (m | rnd.getrandbits(nbits)) if rnd.random() < 0.6 else None)))
    # predicate points outside the care set whose cover box lies entirely above / below a hint, care = the hints
    # (the configuration of the defect repaired by 04078e2; a hand-made instance per sign shape)
    hints = {'g333': '(x \\in 0..2) /\\ (y \\in 0..2) /\\ (z \\in 0..2)', 'p': '(x \\in 2..5) /\\ (y \\in 1..3)',
             'n': '(x \\in -4..-1) /\\ (y \\in -1..1)', 's': '(x \\in -2..1) /\\ (y \\in 0..3)'}
    outside = {'g333': ['(x = 1) /\\ (y = 3)', '(x = 3) /\\ (y = 3) /\\ (z = 0)'], 'p': ['(x = 3) /\\ (y = 0)', '(x >= 6) /\\ (y = 2)', '(x <= 1) /\\ (y = 0)'],
               'n': ['(x = -2) /\\ (y = -2)'], 's': ['(x = 0) /\\ (y = 1)']}
    inside = {'g333': '(x = 0) /\\ (y <= 1)', 'p': '(x = 4) /\\ (y >= 2)', 'n': '(x <= -3) /\\ (y = 0)', 's': '(x = -1) /\\ (y <= 2)'}
    for d in hints:
        for o in outside[d]:
            insts.append(c09.instance('expr', d, (f'({o}) \\/ ({inside[d]})', hints[d])))
            insts.append(c09.instance('expr', d, (f'({o})', hints[d])))
    size = 10 if tier == 'quick' else 60
    tasks = []
    for i in range(0, len(insts), size):
        tasks.append(dict(mod='vlib.props.c08', fn='check_instances', kw=dict(instances=insts[i:i + size]), timeout=3000,
                          name=f'instances[{i}]'))
    for i in range(0, min(len(insts), 4 * size), size):
        tasks.append(dict(mod='vlib.props.c08', fn='check_instances', kw=dict(instances=insts[i:i + size][::3]),
                          backend='autoref', timeout=3000, name=f'autoref:instances[{i}]'))
    if only:
        tasks = [t for t in tasks if only in t['name']]
    results = core.run_tasks(tasks)
    return core.finish(
        PID, tier, seed, 'model_checking', results, t0, files=FILES,
        bounds=dict(instances=len(insts), options=OPTIONS, domains=c09.DECLS, max_domain_points=64),
        rule='one obligation per (predicate, care set, printing options): the printed string parses; z3: it agrees with the '
             'predicate at every care point; each listed disjunct is a non-empty box of interval constraints with no care '
             'point outside the predicate; the disjuncts contain the predicate. Non-trivial = at least two disjuncts',
        assumptions=['z3 (QF_BV over the linked integers)', 'omega\'s parser re-reads the printed string; its meaning comes from sem',
                     'the placeholder line `care expression` is read as TRUE on the care set',
                     'hints shown (show_dom) only when the care set implies them, as the code documents'],
        outside=['latex=True output', 'domains above 64 points', 'predicates over Boolean-valued variables (refused by to_expr)'])
