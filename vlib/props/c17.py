"""C17 — results do not depend on BDD back end, variable order or context history.

Every clause is an equivalence between two exports, decided by z3 for all assignments:
  back ends     the same formula in a context on dd.cudd and in one on dd.autoref
  translators   recursive (symbolic/bdd.py) vs iterative (bdd_iterative.py) prefix translator on the
                same bitblasted string, and both against the independent reader `slugsin2smt`
  histories     a sequence of context operations (declare, add, quantify, substitute, print as
                formula -- which declares auxiliary variables --, reorder, collect garbage, copy to
                another context and back, synthesize in the same context, repeat an operation,
                assign init/action of the automaton) is executed; after every operation every BDD
                obtained earlier is exported again and must still equal the term exported when it was
                obtained; at the end each `init[k] = e` / `action[k] = e` line of `str(automaton)` is
                re-read, interpreted by `sem` and compared with the export of the BDD it labels.
Histories are the enumerated axis (all sequences of length <= 3 over the operation alphabet in
the quick tier, seeded longer ones in the thorough tier); the solver quantifies over assignments.
"""
import contextlib
import io
import itertools
import random
import re
import time

from vlib import core

PID = 'C17'
FILES = ['omega/symbolic/fol.py', 'omega/symbolic/temporal.py', 'omega/symbolic/bdd.py',
         'omega/symbolic/bdd_iterative.py', 'omega/symbolic/orthotopes.py', 'omega/symbolic/functions.py']
FUNCS = ['fol.Context.add_expr', 'fol.Context.declare', 'fol.Context._avoid_redeclaration', 'fol.Context.to_expr',
         'fol.Context.copy', 'fol.reorder', 'temporal.Automaton.__str__', 'temporal.Automaton._cache_expr',
         'temporal.Automaton._fetch_expr', 'symbolic.bdd.add_expr', 'symbolic.bdd_iterative.add_expr',
         'orthotopes.setup_aux_vars', 'gr1.make_streett_transducer']
SOLVER_MS = 60000
OPS = 'ADQSPRGCTVIBOWN'     # operation alphabet of the histories
DECL = dict(x=(0, 5), y=(-3, 2), b='bool')


def _equiv(z3, a, b):
    sol = z3.Solver()
    sol.set('timeout', SOLVER_MS)
    sol.add(a != b)
    return str(sol.check())


# ------------------------------------------------------------------ back ends and translators

def backends_and_translators(seeds):
    import z3
    import dd.autoref
    import omega.logic.bitvector as bv
    import omega.symbolic.bdd as sym_bdd
    import omega.symbolic.bdd_iterative as itr
    import omega.symbolic.fol as fol
    from vlib import bdd2smt, sem
    from vlib.props import c06
    cases = c06.construct_cases()
    out = []
    for seed in seeds:
        cases = cases + c06.random_cases(6, seed, 4, 3)
    for case in cases:
        name = f'backends/translators {case["name"]}'
        ctx1 = c06._mk_ctx(case['decl'])
        ctx2 = fol.Context()
        ctx2.bdd = dd.autoref.BDD()
        d = {k: (v if v == 'bool' else tuple(v)) for k, v in case['decl'].items()}
        ctx2.declare(**d)
        s, defs, tree = c06._strings(case)
        if defs is not None:
            continue
        sample = dict(decl=case['decl'], formula=s)
        try:
            u1 = ctx1.add_expr(s)
            u2 = ctx2.add_expr(s)
            flat = bv.bitblast(s, ctx1.vars)
            r1 = sym_bdd.add_expr(flat, ctx1.bdd)
            r2 = itr.add_expr(flat, ctx1.bdd)
            a1 = sym_bdd.add_expr(flat, ctx2.bdd)
            a2 = itr.add_expr(flat, ctx2.bdd)
        except Exception as e:  # noqa
            out.append(core.res(name, 'violation', sample=sample, nontrivial=True, functions=FUNCS,
                                signature=f'translate:{type(e).__name__}', detail=f'{s!r}: {type(e).__name__}: {str(e)[:100]}',
                                cex=dict(kind='translate')))
            continue
        bits = bdd2smt.Bits()
        e1 = bdd2smt.Exporter(ctx1.bdd, bits)
        e2 = bdd2smt.Exporter(ctx2.bdd, bits)
        ref = bdd2smt.slugsin2smt(flat, bits)
        pairs = [('same formula on dd.cudd and dd.autoref', e1.export(u1), e2.export(u2)),
                 ('recursive vs iterative translator (first back end)', e1.export(r1), e1.export(r2)),
                 ('recursive vs iterative translator (dd.autoref)', e2.export(a1), e2.export(a2)),
                 ('recursive translator vs independent reader', e1.export(r1), ref),
                 ('iterative translator vs independent reader', e2.export(a2), ref)]
        q = {}
        bad = None
        t1 = time.time()
        for label, a, b in pairs:
            r = _equiv(z3, a, b)
            q[r] = q.get(r, 0) + 1
            if r != 'unsat' and bad is None:
                bad = (label, r)
        dt = time.time() - t1
        if bad is None:
            out.append(core.res(name, 'holds', queries=q, solver_s=dt, sample=sample,
                                nontrivial=u1 != ctx1.true and u1 != ctx1.false, functions=FUNCS))
        elif bad[1] == 'sat':
            out.append(core.res(name, 'violation', queries=q, solver_s=dt, sample=sample, nontrivial=True, functions=FUNCS,
                                signature='independence:' + bad[0].split(' ')[0], detail=f'{s!r}: {bad[0]}: results differ',
                                cex=dict(kind='pair', case=case['name'])))
        else:
            out.append(core.res(name, 'inconclusive', queries=q, solver_s=dt, sample=sample, detail=f'{bad[0]}: {bad[1]}'))
    return out


# ------------------------------------------------------------------ histories

class History:
    def __init__(self, seq, seed):
        import omega.symbolic.temporal as trl
        self.seq = seq
        self.rnd = random.Random(seed)
        self.aut = trl.Automaton()
        self.aut.declare_variables(**DECL)
        self.aut.declare_variables(x2=DECL['x'])        # a twin of x, target of simultaneous renamings (operation S)
        # a tiny game over separate variables, for synthesis inside the same context
        self.aut.declare_variables(e='bool', s='bool')
        self.tracked = []      # (label, bdd, z3 term at creation)
        self.log = []
        self.n_decl = 0
        self.labels = {}       # init/action key -> (expr, term)
        self.pending = []      # problems found inside an operation

    def export(self, u):
        from vlib import bdd2smt
        return bdd2smt.Exporter(self.aut.bdd, self.bits).export(u)

    def formula(self, ints_only=False):
        from vlib import sem
        from vlib.props import c07
        decl = {k: v for k, v in DECL.items() if not (ints_only and v == 'bool')}
        return sem.to_str(c07.gen_pred(self.rnd, decl, self.rnd.choice([1, 2])))

    def run(self):
        import z3
        import omega.games.gr1 as gr1
        import omega.symbolic.fol as fol
        from vlib import bdd2smt, sem
        self.bits = bdd2smt.Bits()
        aut = self.aut
        problems = []
        q = {}
        u0 = aut.add_expr(self.formula())
        self.tracked.append(('initial', u0, self.export(u0)))
        for step, op in enumerate(self.seq):
            try:
                self.apply(op, z3)
            except Exception as e:  # noqa
                import traceback
                where = traceback.extract_tb(e.__traceback__)[-1]
                if isinstance(e, (AssertionError,)) and op in 'P':
                    # refusals documented by the operation itself (to_expr of FALSE / Boolean support); synthesis (T) must not raise
                    self.log.append(f'{op}: refused ({type(e).__name__} at {where.name})')
                else:
                    problems.append(f'operation {op} at step {step} raised {type(e).__name__} at {where.name}:{where.lineno}: {str(e)[:80]}')
                    break
            problems += self.pending
            for label, u, term in self.tracked:
                r = _equiv(z3, self.export(u), term)
                q[r] = q.get(r, 0) + 1
                if r != 'unsat':
                    problems.append(f'after {"".join(self.seq[:step + 1])}: BDD "{label}" changed its meaning ({r})')
            if problems:
                break
        if not problems:
            problems += self.check_str(z3, q)
        return problems, q

    def apply(self, op, z3):
        import omega.games.gr1 as gr1
        import omega.symbolic.fol as fol
        aut, rnd = self.aut, self.rnd
        pick = lambda: rnd.choice(self.tracked)
        if op == 'A':
            s = self.formula()
            u = aut.add_expr(s)
            self.tracked.append((f'add {s}', u, self.export(u)))
        elif op == 'D':
            self.n_decl += 1
            k = f'n{self.n_decl}'
            if rnd.random() < 0.5:
                aut.declare_variables(**{k: rnd.choice(['bool', (0, 3), (-2, 5)])})
            else:
                aut.declare_constants(**{k: rnd.choice(['bool', (0, 9)])})
            # redeclaring an existing identifier with the same type is allowed and must change nothing
            aut.declare_variables(x=DECL['x'])
        elif op == 'Q':
            label, u, term = pick()
            v = rnd.choice(list(DECL))
            w = aut.exist({v}, u) if rnd.random() < 0.5 else aut.forall({v}, u)
            self.tracked.append((f'quantify {v} in ({label})', w, self.export(w)))
        elif op == 'S' and rnd.random() < 0.35:
            # simultaneous renaming: swap x with its twin x2 on a predicate that mentions both
            from vlib import link
            label, u, term = pick()
            s2 = self.formula()
            v2 = aut.let({'x': 'x2'}, aut.add_expr(s2))
            w = aut.apply('xor', u, v2)
            Wt = self.export(w)
            bx, bx2 = link.bits_of('x', aut.vars['x']), link.bits_of('x2', aut.vars['x2'])
            swapped = z3.substitute(Wt, *([(self.bits(a), self.bits(b)) for a, b in zip(bx, bx2)] +
                                          [(self.bits(b), self.bits(a)) for a, b in zip(bx, bx2)]))
            order = [('x', 'x2'), ('x2', 'x')]
            if rnd.random() < 0.5:
                order.reverse()
            r = aut.let(dict(order), w)
            self.tracked.append((f'x and x2 swapped in ({label}) xor ({s2})[x2/x]', r, swapped))
        elif op == 'S':
            label, u, term = pick()
            v = rnd.choice(['x', 'y'])
            from vlib import link
            lo, hi = link.rep_range(aut.vars[v])
            w = aut.let({v: rnd.randint(lo, hi)}, u)
            self.tracked.append((f'substitute {v} in ({label})', w, self.export(w)))
        elif op == 'P':
            s = self.formula(ints_only=True)
            u = aut.add_expr(s)
            if u == aut.false or u == aut.true:
                return
            self.tracked.append((f'printed {s}', u, self.export(u)))
            with contextlib.redirect_stdout(io.StringIO()):
                aut.to_expr(u)          # declares a_*, b_*, u_*, v_* parameters
        elif op == 'R':
            bdd = aut.bdd
            if rnd.random() < 0.5:
                fol._bdd.reorder(bdd)          # the back end fol.py itself selected (sifting)
            else:
                v = rnd.choice(['y', 'x'])
                lvl = min(bdd.level_of_var(b) for b in aut.vars[v]['bitnames'])
                fol.reorder({v: dict(level=max(0, lvl - rnd.randint(0, 2)))}, aut)
        elif op == 'G':
            # cache expressions of temporary BDDs, drop every reference and collect;
            # node identifiers may be reused afterwards
            for j in range(4):
                aut.init[f'tmp{j}'] = self.formula()
            for j in range(4):
                aut.init.pop(f'tmp{j}')
            if hasattr(aut.bdd, 'collect_garbage'):
                aut.bdd.collect_garbage()
            import gc
            gc.collect()
            self.apply('B', z3)
        elif op == 'B':
            # label entries with BDDs computed by operations (no expression of their own)
            for j in range(3):
                (l1, u1, t1), (l2, u2, t2) = pick(), pick()
                kind = rnd.choice(['and', 'or', 'xor', 'not'])
                if kind == 'and':
                    w, term = u1 & u2, z3.And(t1, t2)
                elif kind == 'or':
                    w, term = u1 | u2, z3.Or(t1, t2)
                elif kind == 'xor':
                    w, term = aut.apply('xor', u1, u2), z3.Xor(t1, t2)
                else:
                    w, term = ~ u1, z3.Not(t1)
                k = f'b{rnd.randint(0, 2)}'
                if rnd.random() < 0.5:
                    aut.init[k] = w
                else:
                    aut.action[k] = w
                self.tracked.append((f'{kind} of tracked BDDs as {k}', w, term))
        elif op == 'C':
            label, u, term = pick()
            other = fol.Context()
            other.add_vars({k: dict(type=d['type'], **({'dom': d['dom']} if d['type'] == 'int' else {}))
                            for k, d in aut.vars.items()})
            w = aut.copy(u, other)
            back = other.copy(w, aut)
            self.tracked.append((f'copy of ({label})', back, term))
        elif op == 'T':
            # synthesis in the same context, on ONE game automaton kept across the history: each application first
            # re-assigns the ownership of its two variables in place (the primed variable lists of the previous
            # solve are then stale) and must give the region a fresh automaton gives for the same game
            import omega.symbolic.temporal as trl

            def game(owner_env, spec):
                g = trl.Automaton()
                g.bdd = aut.bdd
                g.vars = aut.vars
                g.varlist = dict(env=[owner_env], sys=['s' if owner_env == 'e' else 'e'])
                g.init['env'] = 'TRUE'
                g.init['sys'] = 'TRUE'
                g.action['env'], g.action['sys'], goal = spec
                g.win['[]<>'] = g.bdds_from(goal)
                g.win['<>[]'] = g.bdds_from('FALSE')
                g.moore, g.plus_one, g.qinit = False, True, '\\A \\A'
                return g
            spec = (rnd.choice(["TRUE", "e' \\/ ~ s", "(e' <=> ~ e) \\/ s'"]),
                    rnd.choice(["s' <=> e", "s' \\/ ~ e", "(s' <=> s) \\/ e'", "TRUE"]),
                    rnd.choice(['s', 's <=> e', 's /\\ ~ e']))
            if getattr(self, 'game', None) is None:
                self.game = game('e', spec)
                self.game_owner = 'e'
            else:
                self.game_owner = 's' if self.game_owner == 'e' else 'e'
                g0 = self.game
                g0.varlist['env'], g0.varlist['sys'] = [self.game_owner], ['s' if self.game_owner == 'e' else 'e']
                g0.action['env'], g0.action['sys'] = spec[0], spec[1]
                g0.win['[]<>'] = g0.bdds_from(spec[2])
            g = self.game
            fresh = game(self.game_owner, spec)
            with contextlib.redirect_stdout(io.StringIO()):
                z, yij, xijk = gr1.solve_streett_game(g)
                zf, _, _ = gr1.solve_streett_game(fresh)
                self.tracked.append((f'winning region of the kept game automaton (env owns {self.game_owner}) vs a fresh one',
                                     z, self.export(zf)))
                if gr1.is_realizable(z, g):          # asserted precondition of the constructor
                    gr1.make_streett_transducer(z, yij, xijk, g)
                    self.tracked.append(('synthesized action', g.action['impl'], self.export(g.action['impl'])))
        elif op == 'O':
            # copy of the automaton; an operator of the same name is registered with different bodies in the
            # copy and in the original; entries labelled by the operator name must mean the local definition
            import copy as _copy
            self.n_decl += 1
            nm = f'op{self.n_decl}'
            cp = _copy.copy(aut)
            s1, s2 = self.formula(), self.formula()
            first, second = (aut, cp) if rnd.random() < 0.5 else (cp, aut)
            first.define(f'{nm} == {s1}')
            second.define(f'{nm} == {s2}')
            t1 = self.export(aut.add_expr(s1 if first is aut else s2))
            t2 = self.export(aut.add_expr(s2 if first is aut else s1))
            box = rnd.choice(['init', 'action'])        # both containers of the copy must belong to the copy
            key = f'o{self.n_decl}'
            getattr(aut, box)[key] = nm
            getattr(cp, box)[key] = nm
            self.tracked.append((f'operator {nm} in the original ({box})', getattr(aut, box)[key], t1))
            self.tracked.append((f'operator {nm} in the copy ({box})', getattr(cp, box)[key], t2))
            getattr(aut, box).pop(key)
        elif op == 'V':
            # the same expression twice gives the same answer
            s = self.formula()
            u1 = aut.add_expr(s)
            t1 = self.export(u1)
            u2 = aut.add_expr(s)
            self.tracked.append((f'first {s}', u1, t1))
            self.tracked.append((f'second {s}', u2, t1))
        elif op == 'I':
            k = rnd.choice(['env', 'sys', 'c3'])
            s = self.formula()
            if rnd.random() < 0.5:
                aut.init[k] = s
                u = aut.init[k]
            else:
                aut.action[k] = s
                u = aut.action[k]
            self.tracked.append((f'label {k} = {s}', u, self.export(u)))
        elif op == 'N':
            # a BDD obtained earlier (or a constant) mentioned by its node reference inside a later formula
            cands = list(self.tracked) + [('FALSE', aut.false, z3.BoolVal(False)), ('TRUE', aut.true, z3.BoolVal(True))]
            label, u, term = rnd.choice(cands) if rnd.random() < 0.6 else rnd.choice(cands[-2:])
            s = self.formula()
            t2 = self.export(aut.add_expr(s))
            kind = rnd.choice(['or', 'and', 'not', 'implies'])
            if kind == 'or':
                e, want = rf'{u} \/ ({s})', z3.Or(term, t2)
            elif kind == 'and':
                e, want = rf'({s}) /\ {u}', z3.And(t2, term)
            elif kind == 'not':
                e, want = rf'~ {u}', z3.Not(term)
            else:
                e, want = rf'{u} => ({s})', z3.Implies(term, t2)
            w = aut.add_expr(e)
            self.tracked.append((f'{kind} mentioning the node of ({label}) as {e[:40]!r}', w, want))
        elif op == 'W':
            # attempt to re-declare an existing variable with a different hint: either refused (ValueError,
            # nothing changes) or, if the call returns, the new hint is the one the context reports
            from vlib import link, sem
            v = rnd.choice(['x', 'y'])
            old = dict(aut.vars[v])
            lo, hi = old['dom']
            new = rnd.choice([(lo, hi - 1), (lo + 1, hi), (lo, hi + 1), (lo - 1, hi), (lo, 4 * abs(hi) + 9), 'bool'])
            try:
                aut.declare_variables(**{v: new})
                accepted = True
            except ValueError:
                accepted = False
            now = aut.vars[v]
            if not accepted:
                if now.get('dom') != old.get('dom') or now.get('width') != old.get('width') or now['type'] != old['type']:
                    self.pending.append(f're-declaration of {v} as {new} was refused but changed the table: {old} -> {now}')
            else:
                ok = (now['type'] == 'bool') if new == 'bool' else (now['type'] == 'int' and tuple(now['dom']) == tuple(new))
                if ok and new != 'bool':
                    hint = aut.add_expr(aut.type_hint_for([v]))
                    table = {k: d for k, d in aut.vars.items() if not k.endswith("'")}
                    want = sem.to_z3(('in', ('var', v, False), ('num', new[0]), ('num', new[1])), sem.Env(table, self.bits))[0]
                    ok = _equiv(z3, self.export(hint), want) == 'unsat'
                if not ok:
                    self.pending.append(f're-declaration of {v} (was {old.get("dom", old["type"])}) as {new} returned without error, '
                                        f'but the context reports {now.get("dom", now["type"])} / hint {aut.type_hint_for([v])!r}: '
                                        'the meaning of later results depends on the declaration history')
        else:
            raise ValueError(op)

    def check_str(self, z3, q):
        """Each `init[k] = e` / `action[k] = e` line of str(aut): e re-read by sem == export of the stored BDD."""
        import omega.logic.lexyacc as lexyacc
        from vlib import sem
        aut = self.aut
        problems = []
        text = str(aut)
        table = {k: v for k, v in aut.vars.items() if not k.endswith("'")}
        env = sem.Env(table, self.bits)
        for m in re.finditer(r'^(init|action)\[(\w+)\] = (.*)$', text, re.M):
            kind, k, e = m.group(1), m.group(2), m.group(3)
            u = (aut.init if kind == 'init' else aut.action).get(k)
            if u is None:
                problems.append(f'str: line for {kind}[{k}] but no such entry')
                continue
            if e.startswith('@') or e.startswith('<') or 'Function' in e:
                continue          # no cached expression: the BDD itself is shown
            try:
                tree = sem.from_omega(lexyacc.Parser().parse(e), table)
                term = sem.to_z3(tree, env)[0]
            except Exception as ex:  # noqa
                problems.append(f'str: expression shown for {kind}[{k}] cannot be re-read: {e!r} ({ex})')
                continue
            r = _equiv(z3, term, self.export(u))
            q[r] = q.get(r, 0) + 1
            if r != 'unsat':
                problems.append(f'str: expression shown for {kind}[{k}] ({e!r}) is not equivalent to the BDD it labels ({r})')
        return problems


def stale_cache_probe(seed):
    """Steer towards the one history the enumerated sequences do not reach by chance: an expression is
    cached, every reference to its BDD is dropped, the manager collects, and a *different* formula is built
    until its BDD receives the recycled node identifier; it is stored as a BDD and the automaton printed.
    The expression shown (if any) must be equivalent to the BDD it labels (z3 on the export)."""
    import z3
    import omega.logic.lexyacc as lexyacc
    import omega.symbolic.fol as fol
    import omega.symbolic.temporal as trl
    from vlib import bdd2smt, sem
    rnd = random.Random(seed)
    atoms = [f'{v} {op} {k}' for v in ('x', 'y') for op in ('=', '<', '>') for k in range(4)] + \
            ['x < y', 'x > y', 'x = y', 'x # y', 'x + y = 3', '(x = 0) /\\ (y = 0)', '(x = 1) \\/ (y = 3)']
    reused = 0
    problems = []
    q = {}
    t1 = time.time()
    for first in rnd.sample(atoms, 10):
        aut = trl.Automaton()
        aut.declare_variables(x=(0, 3), y=(0, 3))
        aut.varlist.update(env=['x'], sys=['y'])

        def collect():
            if hasattr(aut.bdd, 'collect_garbage'):
                aut.bdd.collect_garbage()
            else:
                fol._bdd.reorder(aut.bdd)     # CUDD: reordering collects dead nodes
        aut.init['env'] = first
        uid = str(aut.init['env'])
        aut.init['env'] = aut.true
        collect()
        for expr in atoms:
            if expr == first:
                continue
            u = aut.add_expr(expr)
            if str(u) != uid:
                del u
                collect()
                continue
            reused += 1
            aut.init['env'] = u          # stored as a BDD: nothing is re-cached
            text = str(aut)
            m = re.search(r'^init\[env\] = (.*)$', text, re.M)
            shown = m.group(1) if m else ''
            if shown and not shown.startswith('@') and 'Function' not in shown:
                bits = bdd2smt.Bits()
                table = {k: v for k, v in aut.vars.items() if not k.endswith("'")}
                tree = sem.from_omega(lexyacc.Parser().parse(shown), table)
                term = sem.to_z3(tree, sem.Env(table, bits))[0]
                r = _equiv(z3, term, bdd2smt.Exporter(aut.bdd, bits).export(u))
                q[r] = q.get(r, 0) + 1
                if r != 'unsat':
                    problems.append(f'after caching {first!r}, dropping it and collecting, the BDD of {expr!r} received the '
                                    f'recycled identifier {uid} and str(automaton) shows {shown!r}, which is not equivalent ({r})')
            break
    name = f'stale expression cache probe #{seed}'
    sample = dict(node_identifier_reuses=reused, first_expressions=10)
    dt = time.time() - t1
    if problems:
        return [core.res(name, 'violation', queries=q, solver_s=dt, sample=sample, nontrivial=True, functions=FUNCS,
                         signature='history:stale-expression-cache', detail=problems[0],
                         cex=dict(kind='stale', seed=seed))]
    return [core.res(name, 'holds', queries=q, solver_s=dt, sample=sample, nontrivial=reused > 0, functions=FUNCS)]


def check_histories(seqs, seed):
    out = []
    for i, seq in enumerate(seqs):
        name = f'history {seq}'
        h = History(list(seq), seed * 7919 + hash(seq) % 100000)
        t1 = time.time()
        problems, q = h.run()
        dt = time.time() - t1
        sample = dict(operations=seq, alphabet='A add, D declare, Q quantify, S substitute, P print as formula, R reorder, '
                      'G collect garbage, C copy to another context and back, T synthesize, V repeat, I assign init/action from a formula, B from a computed BDD, O copy the automaton and define a same-named operator in both',
                      tracked_bdds=len(h.tracked))
        if not problems:
            out.append(core.res(name, 'holds', queries=q, solver_s=dt, sample=sample, nontrivial=len(h.tracked) >= 2, functions=FUNCS))
        elif any('(unknown)' in p for p in problems):
            out.append(core.res(name, 'inconclusive', queries=q, solver_s=dt, sample=sample, detail=problems[0]))
        else:
            out.append(core.res(name, 'violation', queries=q, solver_s=dt, sample=sample, nontrivial=True, functions=FUNCS,
                                signature='history:' + problems[0].split(':')[0].split(' ')[0],
                                detail=problems[0], cex=dict(kind='history', seq=seq, seed=seed)))
    return out


def replay(payload):
    c = payload['cex']
    if c['kind'] == 'stale':
        r = stale_cache_probe(c['seed'])
        return r[0]['status'] == 'violation', r[0]['detail'] or 'shown expressions are equivalent to their BDDs'
    if c['kind'] == 'history':
        r = check_histories([c['seq']], c['seed'])
        return r[0]['status'] == 'violation', r[0]['detail'] or 'history leaves every BDD unchanged'
    return False, 're-run the check'


def run(tier, seed, t0, only=None):
    if tier == 'quick':
        seqs = [''.join(p) for n in (1, 2, 3) for p in itertools.product(OPS, repeat=n)]
        rnd = random.Random(seed)
        seqs += [''.join(rnd.choice(OPS) for _ in range(rnd.randint(4, 8))) for _ in range(60)]
    else:
        seqs = [''.join(p) for n in (1, 2, 3) for p in itertools.product(OPS, repeat=n)]
        rnd = random.Random(seed)
        seqs += [''.join(rnd.choice(OPS) for _ in range(rnd.randint(4, 12))) for _ in range(3000)]
    tasks = []
    size = 40
    for be in ('cudd', 'autoref'):
        sel = seqs if be == 'cudd' else seqs[::5]
        for i in range(0, len(sel), size):
            tasks.append(dict(mod='vlib.props.c17', fn='check_histories', kw=dict(seqs=sel[i:i + size], seed=seed), backend=be,
                              timeout=3000, name=f'{be}:histories[{i}]'))
    for be in ('cudd', 'autoref'):
        for i in range(2 if tier == 'quick' else 20):
            tasks.append(dict(mod='vlib.props.c17', fn='stale_cache_probe', kw=dict(seed=seed * 10 + i), backend=be,
                              timeout=1200, name=f'{be}:stale-cache-probe[{i}]'))
    nseeds = 4 if tier == 'quick' else 40
    for i in range(nseeds):
        tasks.append(dict(mod='vlib.props.c17', fn='backends_and_translators', kw=dict(seeds=[seed * 100 + i]), timeout=3000,
                          name=f'backends-translators[{i}]'))
    if only:
        tasks = [t for t in tasks if only in t['name']]
    results = core.run_tasks(tasks)
    return core.finish(
        PID, tier, seed, 'model_checking', results, t0, files=FILES,
        bounds=dict(histories=f'all {len(OPS)}+{len(OPS)**2}+{len(OPS)**3} operation sequences of length <= 3 over an alphabet of {len(OPS)} '
                              f'operations, plus {len(seqs) - len(OPS) - len(OPS)**2 - len(OPS)**3} seeded sequences of length 4..'
                              + ('8' if tier == 'quick' else '12'),
                    declaration=DECL, formulas='C06 construct shapes and seeded trees for back ends / translators'),
        rule='histories are enumerated, assignments are decided by z3: after every operation of a history each BDD obtained earlier '
             'is re-exported and must equal the term exported when it was obtained; str(automaton) lines re-read and compared; per '
             'formula five equivalences across back ends and translators. Non-trivial = at least two tracked BDDs / non-constant formula',
        assumptions=['z3', 'dd node accessors', 'dd reordering and garbage collection are third-party and only exercised, not verified'],
        outside=['histories longer than 12 operations', 'more than one automaton sharing a manager except for the synthesis step'])
