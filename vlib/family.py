"""All relations of a bounded shape in one run: rigid Boolean table constants.

`build(shape, moore, plus_one)` returns an `omega.symbolic.temporal.Automaton`
whose actions / goals / holds are *tables*: disjunctions over every valuation
of the listed identifiers (all values of the *bit range* for integers) of
`cell /\\ constant`.  One run of a real algorithm on it computes the result for
every member of the family; the constants become existential variables of the
negated property.

`explicit(aut, exp)` reads the game back from the *BDDs handed to the solver*
(exported, state bits substituted) into explicit tables over the remaining
constants, which is what `xref.Game` consumes.
"""
import itertools

import z3

from vlib import link


SHAPES = {
    # name: (env decl, sys decl, env action reads, sys action reads, n_goals, n_holds)
    'S11': (dict(x='bool'), dict(y='bool'), ['x', "x'"], ['x', 'y', "y'"], 1, 1),
    'S11h2': (dict(x='bool'), dict(y='bool'), ['x', "x'"], ['x', 'y', "y'"], 1, 2),
    'S11g2': (dict(x='bool'), dict(y='bool'), ['x', "x'"], ['x', 'y', "y'"], 2, 1),
    'S11g3': (dict(x='bool'), dict(y='bool'), ['x', "x'"], ['x', 'y', "y'"], 3, 1),
    'S11g2h2': (dict(x='bool'), dict(y='bool'), ['x', "x'"], ['x', 'y', "y'"], 2, 2),
    'B11a': (dict(x='bool'), dict(y='bool'), ['x', 'y', "x'"], ['x', 'y', "x'", "y'"], 1, 1),
    'B11b': (dict(x='bool'), dict(y='bool'), ['x', 'y', "x'", "y'"], ['x', 'y', "x'", "y'"], 1, 1),
    'B11c21': (dict(x='bool'), dict(y='bool'), ['x', 'y', "x'"], ['x', 'y', "x'", "y'"], 2, 1),
    'B11c12': (dict(x='bool'), dict(y='bool'), ['x', 'y', "x'"], ['x', 'y', "x'", "y'"], 1, 2),
    'B11d21': (dict(x='bool'), dict(y='bool'), ['x', 'y', "x'", "y'"], ['x', 'y', "x'", "y'"], 2, 1),
    'B11d12': (dict(x='bool'), dict(y='bool'), ['x', 'y', "x'", "y'"], ['x', 'y', "x'", "y'"], 1, 2),
    # closed systems (no environment variable) and pure environments
    'B02': (dict(), dict(y='bool', w='bool'), [], ['y', 'w', "y'", "w'"], 1, 1),
    'B02g2': (dict(), dict(y='bool', w='bool'), [], ['y', 'w', "y'", "w'"], 2, 1),
    'B02g2h2': (dict(), dict(y='bool', w='bool'), [], ['y', 'w', "y'", "w'"], 2, 2),
    # integers: tables range over the whole bit range (outside the hints too)
    'I11a': (dict(x='bool'), dict(y=(-1, 1)), ['x', 'y', "x'"], ['x', 'y', "x'", "y'"], 1, 1),
    'I11b': (dict(x=(0, 2)), dict(y='bool'), ['x', 'y', "x'"], ['x', 'y', "x'", "y'"], 1, 1),
    'I11n': (dict(x='bool'), dict(y=(-3, -1)), ['x', 'y', "x'"], ['x', 'y', "x'", "y'"], 1, 1),
    # two env bits / two sys bits with partial dependence
    # three state bits, sparse dependence (keeps the number of constants near 30)
    'S21': (dict(x='bool', v='bool'), dict(y='bool'), ['x', "x'", "v'"], ['v', 'y', "y'"], 1, 1),
    'S12': (dict(x='bool'), dict(y='bool', w='bool'), ['x', "x'"], ['x', 'w', "y'", "w'"], 1, 1),
    'B21': (dict(x='bool', v='bool'), dict(y='bool'), ['x', 'v', "x'", "v'"], ['v', 'y', "x'", "y'"], 1, 1),
    'B12': (dict(x='bool'), dict(y='bool', w='bool'), ['x', 'y', "x'"], ['x', 'w', "x'", "y'", "w'"], 1, 1),
}


def _values(aut, ident):
    base = ident[:-1] if ident.endswith("'") else ident
    d = aut.vars[base]
    if d['type'] == 'bool':
        return [False, True]
    lo, hi = link.rep_range(d)
    return list(range(lo, hi + 1))


def _cell(aut, ident, v):
    base = ident[:-1] if ident.endswith("'") else ident
    if aut.vars[base]['type'] == 'bool':
        return f'({ident} <=> {"TRUE" if v else "FALSE"})'
    return f'({ident} = {v})'


def table(aut, prefix, idents, params):
    """Formula `\\/_v (idents = v /\\ prefix_v)`; appends constants to params."""
    if not idents:
        p = f'{prefix}_0'
        params.append(p)
        return p
    terms = []
    for k, vals in enumerate(itertools.product(*[_values(aut, i) for i in idents])):
        p = f'{prefix}_{k}'
        params.append(p)
        cell = ' /\\ '.join(_cell(aut, i, v) for i, v in zip(idents, vals))
        terms.append(f'({cell} /\\ {p})')
    return ' \\/ '.join(terms)


TEMPLATES = {
    # integer template families: rigid *integer* constants inside arithmetic actions and goals; the
    # valuations outside the type hints (x = 3, y = -2) are part of every game
    'T11': dict(env=dict(x=(0, 2)), sys=dict(y=(-1, 1)),
                consts=dict(a=(0, 1), b=(-1, 1), c=(-1, 1), d=(0, 2), e=(-1, 1), k='bool'),
                env_action="(x' <= x + a) /\\ ((x' >= x - 1) \\/ k)",
                sys_action="((y' = y + b) \\/ (y' = c)) /\\ (k \\/ (y' <= x'))",
                goals=["(y = e) \\/ (x = d)"], holds=["x >= d"]),
    'T11b': dict(env=dict(x='bool'), sys=dict(y=(0, 2)),
                 consts=dict(a=(0, 2), b=(0, 1), c=(0, 2), k='bool'),
                 env_action="(x' <=> (x \\/ (y = a))) \\/ k",
                 sys_action="(y' <= y + b) /\\ (y' >= y - 1) /\\ ((~ x') \\/ (y' # c))",
                 goals=["y = a", "y = c"], holds=["~ x"]),
}


def build_template(shape, moore, plus_one, qinit='\\A \\A'):
    import omega.symbolic.temporal as trl
    t = TEMPLATES[shape]
    aut = trl.Automaton()
    aut.declare_variables(**t['env'], **t['sys'])
    aut.declare_constants(**t['consts'])
    aut.varlist = dict(env=list(t['env']), sys=list(t['sys']))
    aut.init['env'] = 'TRUE'
    aut.init['sys'] = 'TRUE'
    aut.action['env'] = t['env_action']
    aut.action['sys'] = t['sys_action']
    aut.win['[]<>'] = aut.bdds_from(*t['goals'])
    aut.win['<>[]'] = aut.bdds_from(*t['holds'])
    aut.moore, aut.plus_one, aut.qinit = moore, plus_one, qinit
    aut.prime_varlists()
    return aut, list(t['consts'])


def build(shape, moore, plus_one, qinit='\\A \\A'):
    import omega.symbolic.temporal as trl
    if shape in TEMPLATES:
        return build_template(shape, moore, plus_one, qinit)
    env, sys_, eids, sids, ng, nh = SHAPES[shape]
    aut = trl.Automaton()
    decl = dict(env)
    decl.update(sys_)
    aut.declare_variables(**decl)
    aut.varlist = dict(env=list(env), sys=list(sys_))
    state = list(env) + list(sys_)
    exprs = {}
    params = []
    exprs['env'] = table(aut, 'e', eids, params)
    exprs['sys'] = table(aut, 's', sids, params)
    exprs['goals'] = [table(aut, f'g{j}', state, params) for j in range(ng)]
    exprs['holds'] = [table(aut, f'h{k}', state, params) for k in range(nh)]
    aut.declare_constants(**{p: 'bool' for p in params})
    aut.init['env'] = 'TRUE'
    aut.init['sys'] = 'TRUE'
    aut.action['env'] = exprs['env']
    aut.action['sys'] = exprs['sys']
    aut.win['[]<>'] = aut.bdds_from(*exprs['goals'])
    aut.win['<>[]'] = aut.bdds_from(*exprs['holds'])
    aut.moore = moore
    aut.plus_one = plus_one
    aut.qinit = qinit
    aut.prime_varlists()
    return aut, params


def state_bits(aut, names, primed=False):
    out = []
    for n in names:
        out.extend(link.bits_of(n, aut.vars[n], primed))
    return out


class Explicit:
    """Explicit reading of a (family) game from exported BDDs."""

    def __init__(self, aut, exp, env_vars=None, sys_vars=None):
        self.aut = aut
        self.exp = exp
        self.bits = exp.bits
        self.env_vars = list(aut.varlist['env'] if env_vars is None else env_vars)
        self.sys_vars = list(aut.varlist['sys'] if sys_vars is None else sys_vars)
        self.xbits = state_bits(aut, self.env_vars)
        self.ybits = state_bits(aut, self.sys_vars)
        self.X = list(itertools.product([False, True], repeat=len(self.xbits)))
        self.Y = list(itertools.product([False, True], repeat=len(self.ybits)))
        self.S = [x + y for x in self.X for y in self.Y]
        self.cur = self.xbits + self.ybits

    def sub_state(self, term, s, nxt=None):
        sub = [(self.bits(b), z3.BoolVal(v)) for b, v in zip(self.cur, s)]
        if nxt is not None:
            sub += [(self.bits(b + "'"), z3.BoolVal(v)) for b, v in zip(self.cur, nxt)]
        return z3.simplify(z3.substitute(term, *sub))

    def action_table(self, u):
        e = self.exp.export(u)
        t = {}
        for s in self.S:
            es = self.sub_state(e, s)
            for xp in self.X:
                for yp in self.Y:
                    sub = [(self.bits(b + "'"), z3.BoolVal(v)) for b, v in zip(self.cur, xp + yp)]
                    t[s, xp, yp] = z3.simplify(z3.substitute(es, *sub)) if sub else es
        return t

    def pred_table(self, u):
        e = self.exp.export(u)
        return {s: self.sub_state(e, s) for s in self.S}

    def state_values(self, s):
        """Concrete values of the declared identifiers at explicit state s."""
        a = dict(zip(self.cur, s))
        out = {}
        for n in self.env_vars + self.sys_vars:
            out[n] = link.bits_to_value(n, self.aut.vars[n], a)
        return out


def model_params(model, params, bits, table=None):
    """Values of the rigid constants in a model (Boolean table constants, or integer constants when the
    symbol table is given)."""
    out = {}
    for p in params:
        d = table.get(p) if table else None
        if d is None or d['type'] == 'bool':
            out[p] = z3.is_true(model.eval(bits(p), model_completion=True))
        else:
            a = {b: z3.is_true(model.eval(bits(b), model_completion=True)) for b in d['bitnames']}
            out[p] = link.bits_to_value(p, d, a)
    return out


def random_member(aut, params, rnd, dens=None):
    """Seeded values for the rigid constants of a family (Boolean tables or integer template constants)."""
    dens = dens if dens is not None else rnd.choice([0.35, 0.5, 0.65, 0.8, 0.9])
    vals = {}
    for p in params:
        d = aut.vars[p]
        if d['type'] == 'bool':
            vals[p] = rnd.random() < dens
        else:
            vals[p] = rnd.randint(*d['dom'])
    return vals
