"""C12 — the enumerated state machine is an input-complete sub-machine of the symbolic one.

Translation validation of each graph produced by `games.enumeration.action_to_steps`
(the graph is a concrete artefact); what the solver decides is every "for each next
environment value" and every initial-set quantifier, over the exported actions:

  nodes      distinct valuations, one value per declared variable
  edges      each edge satisfies the exported environment action and implementation action
  inputs     per node n:  EnvNext(n, x') /\\ (x' differs from the input of every out-edge)  unsat,
             exactly one out-edge per admitted input, none for others
  initial    per qinit form, e.g. \\A \\A:  EnvInit /\\ ImplInit /\\ (state is no initial node)  unsat
  liveness   the concrete graph has no cycle violating the acceptance condition

Instances: synthesized Streett/Rabin implementations of concrete members of the table
families, and integer games (inputs of 2-3 bits), 4 qinit forms, Moore and Mealy.
"""
import contextlib
import io
import itertools
import random
import time

from vlib import core

PID = 'C12'
FILES = ['omega/games/enumeration.py', 'omega/symbolic/fol.py']
FUNCS = ['games.enumeration.action_to_steps', 'games.enumeration._action_to_steps', 'games.enumeration._init_search',
         'games.enumeration._forall_init', 'games.enumeration._exist_init', 'games.enumeration._forall_exist_init',
         'games.enumeration._exist_forall_init', 'games.enumeration._select_candidate_nodes',
         'games.enumeration._add_to_visited', 'games.enumeration._add_new_node', 'games.enumeration._find_node',
         'games.enumeration.enumerate_state_machine']
QINITS = ['\\A \\A', '\\E \\E', '\\A \\E', '\\E \\A']
SOLVER_MS = 60000


def make_case(seed):
    rnd = random.Random(seed)
    kind = 'hand' if seed % 5 == 4 else ('family' if seed % 3 else 'int')
    return dict(seed=seed, kind=kind, qinit=QINITS[seed % 4], moore=rnd.random() < 0.5, plus_one=rnd.random() < 0.5,
                objective='streett' if rnd.random() < 0.6 else 'rabin')


def build_case(c):
    """Concrete game, solved and implemented by the real code. Returns aut or None (unrealizable)."""
    import omega.games.gr1 as gr1
    import omega.symbolic.temporal as trl
    from vlib import family
    from vlib.props import c01
    rnd = random.Random(c['seed'] * 31 + 7)
    if c['kind'] == 'hand':
        return build_hand_case(c, rnd)
    if c['kind'] == 'family':
        shape = rnd.choice(['S11', 'B11a'])
        aut, params = family.build(shape, c['moore'], c['plus_one'], qinit=c['qinit'])
        dens = rnd.choice([0.6, 0.8, 0.9])
        c01.concrete_member(aut, {p: rnd.random() < dens for p in params})
        desc = f'{shape} member'
    else:
        aut = trl.Automaton()
        xd = rnd.choice([(0, 3), (0, 5), (-2, 1)])
        yd = rnd.choice([(0, 3), (-2, 1)])
        aut.declare_variables(x=xd, y=yd)
        aut.varlist = dict(env=['x'], sys=['y'])
        a, b, cc = rnd.randint(0, 2), rnd.randint(0, 2), rnd.randint(1, 2)
        aut.action['env'] = (f"(x' <= x + {a}) /\\ (x' >= x - {b}) /\\ (x' \\in {xd[0]}..{xd[1]}) /\\ (x \\in {xd[0]}..{xd[1]})")
        aut.action['sys'] = (f"(y' - y <= {cc}) /\\ (y - y' <= {cc}) /\\ (y' \\in {yd[0]}..{yd[1]})")
        g1 = rnd.choice(['y = x', 'y >= x', f'y = {rnd.randint(*yd)}', 'y + 1 >= x'])
        h1 = rnd.choice(['FALSE', f'x = {rnd.randint(*xd)}', 'TRUE'])
        aut.win['[]<>'] = aut.bdds_from(g1)
        aut.win['<>[]'] = aut.bdds_from(h1)
        aut.moore, aut.plus_one, aut.qinit = c['moore'], c['plus_one'], c['qinit']
        aut.prime_varlists()
        desc = f"int game x:{xd} y:{yd} env +{a}/-{b} sys +-{cc} goal {g1} hold {h1}"
    env, sys_ = aut.varlist['env'], aut.varlist['sys']
    state = env + sys_
    shared = c['qinit'] in ('\\A \\A', '\\E \\E')

    def rand_pred(ids, p):
        cs = list(itertools.product(*[family._values(aut, i) for i in ids]))
        terms = [' /\\ '.join(family._cell(aut, i, v) for i, v in zip(ids, vs)) for vs in cs if rnd.random() < p]
        return ' \\/ '.join(f'({t})' for t in terms) if terms else 'FALSE'
    with contextlib.redirect_stdout(io.StringIO()):
        if c['objective'] == 'streett':
            z, yij, xijk = gr1.solve_streett_game(aut)
        else:
            zk, yki, xkijr = gr1.solve_rabin_game(aut)
            z = zk[-1]
        if z == aut.false:
            return None, desc
        # initial conditions compatible with the form, inside the winning region
        if c['qinit'] == '\\E \\E':
            aut.init['env'] = 'TRUE'
            aut.init['sys'] = aut.add_expr(rand_pred(state, 0.8)) | z
        elif c['qinit'] == '\\A \\A':
            aut.init['env'] = aut.add_expr(rand_pred(state, 0.7)) & z
            aut.init['sys'] = 'TRUE'
        else:
            # environment initial condition over environment variables only
            ei = aut.add_expr(rand_pred(env, 0.6)) if env else aut.true
            aut.init['env'] = ei
            aut.init['sys'] = aut.add_expr(rand_pred(state, 0.85)) | z
        if aut.init['env'] == aut.false:
            return None, desc
        if not gr1.is_realizable(z, aut):
            return None, desc
        try:
            if c['objective'] == 'streett':
                gr1.make_streett_transducer(z, yij, xijk, aut)
            else:
                gr1.make_rabin_transducer(zk, yki, xkijr, aut)
        except AssertionError:
            return None, desc
    aut._verif_z = z
    return aut, desc


def build_hand_case(c, rnd):
    """Hand-made (not synthesized) implementation: total action, initial condition of the component that
    depends on the environment variable in a way compatible with the requested qinit form."""
    import omega.symbolic.temporal as trl
    aut = trl.Automaton()
    yd = rnd.choice([(0, 3), (-2, 1)])
    aut.declare_variables(x='bool', y=yd)
    aut.varlist = dict(env=['x'], sys=['y'], impl=['y'])
    aut.prime_varlists()
    aut.moore, aut.plus_one, aut.qinit = True, c['plus_one'], c['qinit']
    lo, hi = yd
    k = rnd.randint(lo, hi)
    aut.action['env'] = rnd.choice(['TRUE', "x' \\/ ~ x", "x' <=> ~ x"])
    aut.action['impl'] = rnd.choice([
        f"(y' = y)", f"(y < {hi} => (y' = y + 1)) /\\ (y = {hi} => (y' = {lo}))",
        f"(x => (y' = {k})) /\\ (~ x => (y' = y))"])
    aut.action['sys'] = aut.action['impl']
    # component init valid for every environment value only at y = k
    aut.init['impl'] = f"(x => (y >= {k})) /\\ (~ x => (y <= {k})) /\\ (y \\in {lo}..{hi})"
    aut.init['sys'] = aut.init['impl']
    aut.init['env'] = rnd.choice(['TRUE', 'x', '~ x'])
    if c['qinit'] == '\\E \\E':
        aut.init['env'] = 'TRUE'
    aut.win['[]<>'] = aut.bdds_from('TRUE')
    aut.win['<>[]'] = aut.bdds_from('FALSE')
    c['objective'] = 'streett'
    return aut, f'hand-made implementation y:{yd}, component init pivots at y = {k}'


def check_cases(seeds):
    import z3
    import omega.games.enumeration as enum
    from vlib import bdd2smt, link, trans
    out = []
    for seed in seeds:
        c = make_case(seed)
        name = f'enumerate #{seed} {c["kind"]} {c["objective"]} qinit={c["qinit"]} moore={c["moore"]} plus_one={c["plus_one"]}'
        aut, desc = build_case(c)
        if aut is None:
            continue
        sample = dict(case=c, game=desc)
        t1 = time.time()
        declared = {k: list(v) for k, v in aut.varlist.items()}     # the caller's variable lists before any enumeration
        try:
            with contextlib.redirect_stdout(io.StringIO()):
                g = enum.action_to_steps(aut, env='env', sys='impl', qinit=c['qinit'])
        except Exception as e:  # noqa
            import traceback
            where = traceback.extract_tb(e.__traceback__)[-1]
            out.append(core.res(name, 'violation', sample=sample, nontrivial=True, functions=FUNCS,
                                signature=f'action_to_steps:{type(e).__name__}@{where.name}',
                                detail=f'action_to_steps raised {type(e).__name__} at {where.name}:{where.lineno}: {str(e)[:100]} ({desc})',
                                cex=dict(seed=seed, kind='raise')))
            continue
        problems, q, nst, ntr = validate_graph(g, aut, c, z3)
        if not problems:
            problems += second_enumeration(aut, c, declared)
        dt = time.time() - t1
        sample.update(nodes=nst, edges=ntr, initial=len(g.initial_nodes))
        if not problems:
            out.append(core.res(name, 'holds', queries=q, solver_s=dt, sample=sample, nontrivial=ntr >= 2, functions=FUNCS,
                                extra=dict(states=nst, transitions=ntr)))
        elif problems[0] == 'unknown':
            out.append(core.res(name, 'inconclusive', queries=q, solver_s=dt, sample=sample, detail='solver unknown'))
        else:
            cex = dict(seed=seed, kind='graph')
            ok, why = replay(dict(cex=cex))
            out.append(core.res(name, 'violation' if ok else 'inconclusive', queries=q, solver_s=dt, sample=sample,
                                nontrivial=True, functions=FUNCS, signature='enumerated-graph:' + problems[0].split(':')[0],
                                detail=f'{desc}: {problems[0]}; replay: {why}', cex=cex))
    return out


def second_enumeration(aut, c, declared):
    """History: the same Automaton enumerated again under another component name (`sys` after `impl`). The graph
    must be labelled with the variables of `env` and `sys` as the caller declared them, every initial node must
    satisfy the initial condition of `sys`, and every edge its action (evaluated with Context.let)."""
    import omega.games.enumeration as enum
    if 'sys' not in aut.action or 'sys' not in aut.init:
        return []
    want_env, want_sys = list(declared['env']), list(declared['sys'])
    try:
        with contextlib.redirect_stdout(io.StringIO()):
            g2 = enum.action_to_steps(aut, env='env', sys='sys', qinit=c['qinit'])
    except Exception as e:  # noqa: the nondeterministic component may admit no initial node for this qinit
        if isinstance(e, AssertionError):
            return []
        return [f'second enumeration (component sys on the same automaton) raised {type(e).__name__}: {str(e)[:80]}']
    keys = sorted(want_env + want_sys)
    for n, d in g2.nodes(data=True):
        if sorted(d) != keys:
            return [f'second enumeration: node {dict(d)} is not a valuation of the variables {keys} the caller declared for env and sys '
                    f'(after the first enumeration the automaton lists env={aut.varlist["env"]}, sys={aut.varlist["sys"]})']

    def tt(u, cur, nxt=None):
        dd_ = dict(cur)
        if nxt is not None:
            dd_.update({k + "'": v for k, v in nxt.items()})
        sup = aut.support(u)
        dd_ = {k: v for k, v in dd_.items() if k in sup}
        return (aut.let(dd_, u) if dd_ else u) == aut.true
    for u_, v_ in g2.edges():
        if not tt(aut.action['sys'], g2.nodes[u_], g2.nodes[v_]):
            return [f'second enumeration: edge {dict(g2.nodes[u_])} -> {dict(g2.nodes[v_])} is not a step of the action of sys']
    return []


def validate_graph(g, aut, c, z3):
    from vlib import bdd2smt, link, trans
    exp = bdd2smt.Exporter(aut.bdd)
    bits = exp.bits
    env, impl = list(aut.varlist['env']), list(aut.varlist['impl'])
    names = env + impl
    t = aut.vars
    eE, eA = exp.export(aut.action['env']), exp.export(aut.action['impl'])
    eEI, eII = exp.export(aut.init['env']), exp.export(aut.init['impl'])
    problems = []
    q = {}

    def sub(term, vals, primed=False):
        s = []
        for k, v in vals.items():
            for b, val in link.value_to_bits(k, t[k], v, primed).items():
                s.append((bits(b), z3.BoolVal(val)))
        return z3.substitute(term, *s) if s else term

    def holds(term):
        r = z3.simplify(term)
        if z3.is_true(r):
            return True
        if z3.is_false(r):
            return False
        so = z3.Solver()
        so.add(z3.Not(r))
        return str(so.check()) == 'unsat'

    def chk(fs):
        sol = z3.Solver()
        sol.set('timeout', SOLVER_MS)
        sol.add(*fs)
        r = str(sol.check())
        q[r] = q.get(r, 0) + 1
        if r not in ('sat', 'unsat'):
            problems.append('unknown')
        return r, (sol.model() if r == 'sat' else None)

    def differs(vals, subset, primed=False):
        """sigma restricted to `subset` differs from the node valuation."""
        eq = []
        for k in subset:
            for b, val in link.value_to_bits(k, t[k], vals[k], primed).items():
                eq.append(bits(b) == z3.BoolVal(val))
        return z3.Not(z3.And(eq)) if eq else z3.BoolVal(False)
    nodes = {n: dict(d) for n, d in g.nodes(data=True)}
    seen = {}
    for n, d in nodes.items():
        if set(d) != set(names):
            problems.append(f'nodes: node {n} has variables {sorted(d)} instead of {sorted(names)}')
            return problems, q, len(nodes), g.number_of_edges()
        key = tuple(sorted(d.items()))
        if key in seen:
            problems.append(f'nodes: nodes {seen[key]} and {n} carry the same valuation {d}')
        seen[key] = n
    # edges
    for n, m in g.edges():
        step_e = sub(sub(eE, nodes[n]), nodes[m], primed=True)
        step_a = sub(sub(eA, nodes[n]), nodes[m], primed=True)
        if not holds(step_e):
            problems.append(f'edges: step {nodes[n]} -> {nodes[m]} violates the environment action')
        if not holds(step_a):
            problems.append(f'edges: step {nodes[n]} -> {nodes[m]} is not allowed by the implementation')
    # input completeness
    for n, d in nodes.items():
        outs = [nodes[m] for m in g.successors(n)]
        ins = [tuple(o[k] for k in env) for o in outs]
        if len(set(ins)) != len(ins):
            problems.append(f'inputs: node {d} has two out-edges for the same next environment value')
        En = sub(eE, d)
        # quantify away next implementation values (environment actions here do not read them)
        r, m = chk([En] + [differs(o, env, primed=True) for o in outs])
        if r == 'sat':
            xp = link.model_values(m, {k: t[k] for k in env}, bits, primed=True)
            problems.append(f'inputs: at node {d} the admitted next environment value {xp} has no out-edge')
        for o in outs:
            if not holds(z3.Or([sub(En, {k: o[k] for k in env}, primed=True)])) and \
                    str(chk([sub(En, {k: o[k] for k in env}, primed=True)])[0]) == 'unsat':
                problems.append(f'inputs: out-edge of {d} for an input the environment action does not allow')
    # initial nodes
    init = [nodes[n] for n in g.initial_nodes]
    qi = c['qinit']
    for d in init:
        if not holds(sub(eII, d)):
            problems.append(f'initial: initial node {d} violates the initial condition of the implementation')
    if qi == '\\A \\A':
        r, m = chk([eEI, eII] + [differs(d, names) for d in init])
        if r == 'sat':
            problems.append(f'initial: state {link.model_values(m, {k: t[k] for k in names}, bits)} satisfies both initial conditions but is no initial node')
        for d in init:
            if not holds(sub(eEI, d)):
                problems.append(f'initial: initial node {d} violates the environment initial condition')
    elif qi == '\\E \\E':
        if len(init) != 1:
            problems.append(f'initial: {len(init)} initial nodes for \\E \\E')
    elif qi == '\\A \\E':
        xs = [tuple(d[k] for k in env) for d in init]
        if len(set(xs)) != len(xs):
            problems.append('initial: two initial nodes for the same environment value')
        ybits = [bits(b) for k in impl for b in link.bits_of(k, t[k])]
        ex_env = z3.Exists(ybits, eEI) if ybits else eEI
        r, m = chk([ex_env] + [differs(d, env) for d in init])
        if r == 'sat':
            problems.append(f'initial: environment value {link.model_values(m, {k: t[k] for k in env}, bits)} admitted by EnvInit has no initial node')
        for d in init:
            if not holds(sub(eEI, d)):
                problems.append(f'initial: initial node {d} violates the environment initial condition')
    else:
        ys = {tuple(d[k] for k in impl) for d in init}
        if len(ys) > 1:
            problems.append('initial: \\E \\A uses more than one implementation valuation')
        if init:
            y0 = {k: init[0][k] for k in impl}
            r, m = chk([sub(eEI, y0)] + [differs(d, env) for d in init])
            if r == 'sat':
                problems.append(f'initial: environment value {link.model_values(m, {k: t[k] for k in env}, bits)} admitted by EnvInit has no initial node')
    # liveness of the concrete graph
    idx = {n: i for i, n in enumerate(nodes)}
    edges = {idx[n]: [idx[m] for m in g.successors(n)] for n in nodes}
    reach = set(idx[n] for n in g.initial_nodes)
    todo = list(reach)
    while todo:
        i = todo.pop()
        for j in edges[i]:
            if j not in reach:
                reach.add(j)
                todo.append(j)

    def tt(u, d):
        sup = aut.support(u)
        r = aut.let({k: v for k, v in d.items() if k in sup}, u)
        return r == aut.true
    order = list(nodes)
    goals = [[tt(gl, nodes[n]) for n in order] for gl in aut.win['[]<>']]
    hlds = [[tt(h, nodes[n]) for n in order] for h in aut.win['<>[]']]
    bad = trans._bad_cycle(reach, edges, goals, hlds, c['objective'])
    if bad is not None:
        problems.append(f'liveness: cycle through {[nodes[order[i]] for i in bad[:3]]} violates the {c["objective"]} condition')
    if len(reach) != len(nodes):
        problems.append('nodes: some node is not reachable from the initial nodes')
    return problems, q, len(nodes), g.number_of_edges()


# ------------------------------------------------------------------ enumerate_state_machine

SM_DECLS = [dict(a='bool', n=(0, 2)), dict(a='bool', n=(-2, 1)), dict(n=(0, 3), m=(-1, 1)),
            dict(a='bool', b='bool', n=(-3, -1))]


def build_machine(seed):
    """Seeded (init, action) over Booleans and small integers: guarded commands with assignments, ranges,
    stuttering and unconstrained next values. Returns (aut, init string, action string)."""
    import omega.symbolic.temporal as trl
    from vlib import sem
    from vlib.props import c07
    rnd = random.Random(seed * 97 + 5)
    decl = SM_DECLS[seed % len(SM_DECLS)]
    aut = trl.Automaton()
    aut.declare_variables(**decl)

    def conj(ts):
        r = ts[0]
        for t_ in ts[1:]:
            r = ('bin', 'and', r, t_)
        return r
    init_t = c07.gen_pred(rnd, decl, rnd.choice([1, 2]))
    cmds = []
    for _ in range(rnd.randint(1, 3)):
        parts = [c07.gen_pred(rnd, decl, 1)]
        for k, v in decl.items():
            r = rnd.random()
            if v == 'bool':
                if r < 0.4:
                    parts.append(('bin', 'equiv', ('bvar', k, True), c07.gen_pred(rnd, decl, 0)))
                elif r < 0.75:
                    parts.append(('bin', 'equiv', ('bvar', k, True), ('bvar', k, False)))
            else:
                if r < 0.35:
                    parts.append(('cmp', '=', ('var', k, True),
                                  ('arith', rnd.choice(['+', '-']), ('var', k, False), ('num', rnd.randint(0, 2)))))
                elif r < 0.55:
                    lo = rnd.randint(v[0] - 1, v[1])
                    parts.append(('in', ('var', k, True), lo, lo + rnd.randint(0, 2)))
                elif r < 0.8:
                    parts.append(('cmp', '=', ('var', k, True), ('var', k, False)))
        cmds.append(conj(parts))
    act_t = cmds[0]
    for c_ in cmds[1:]:
        act_t = ('bin', 'or', act_t, c_)
    return aut, sem.to_str(init_t), sem.to_str(act_t)


def _sm_enumerate(aut, init_s, act_s):
    import omega.games.enumeration as enum
    init, action = aut.add_expr(init_s), aut.add_expr(act_s)
    if init == aut.false or action == aut.false:
        return None, init, action
    with contextlib.redirect_stdout(io.StringIO()):
        g = enum.enumerate_state_machine(init, action, aut)
    return g, init, action


def check_state_machines(seeds):
    """`enumeration.enumerate_state_machine(init, action, aut)`: the graph is the reachable part of the action.

    Solver obligations over the exported BDDs: every valuation satisfying Init is a node; per node, no successor
    allowed by Action is missing from its out-edges (all next valuations symbolic); each edge satisfies Action;
    concrete: nodes are distinct valuations of the variables in the supports and reachable from initial nodes."""
    import z3
    import omega.symbolic.prime as prm
    from vlib import bdd2smt, link
    out = []
    for seed in seeds:
        aut, init_s, act_s = build_machine(seed)
        name = f'state machine #{seed}'
        sample = dict(seed=seed, declarations=SM_DECLS[seed % len(SM_DECLS)], init=init_s, action=act_s)
        t1 = time.time()
        try:
            g, init, action = _sm_enumerate(aut, init_s, act_s)
        except Exception as e:  # noqa
            import traceback
            where = traceback.extract_tb(e.__traceback__)[-1]
            out.append(core.res(name, 'violation', sample=sample, nontrivial=True, functions=FUNCS,
                                signature=f'state-machine:{type(e).__name__}@{where.name}',
                                detail=f'enumerate_state_machine raised {type(e).__name__} at {where.name}:{where.lineno}: {str(e)[:100]}',
                                cex=dict(kind='sm', seed=seed)))
            continue
        if g is None:
            out.append(core.res(name, 'holds', sample=dict(sample, skipped='init or action is FALSE (asserted precondition)'),
                                nontrivial=False, functions=FUNCS))
            continue
        exp = bdd2smt.Exporter(aut.bdd)
        bits = exp.bits
        t = aut.vars
        vrs = sorted(prm.vars_in_support(init, aut) | prm.vars_in_support(action, aut))
        I, A = exp.export(init), exp.export(action)
        q = {}
        problems = []

        def sub(term, vals, primed=False):
            s_ = []
            for k, v in vals.items():
                for b, val in link.value_to_bits(k, t[k], v, primed).items():
                    s_.append((bits(b), z3.BoolVal(val)))
            return z3.substitute(term, *s_) if s_ else term

        def state_is(vals, primed=False):
            eq = []
            for k in vrs:
                for b, val in link.value_to_bits(k, t[k], vals[k], primed).items():
                    eq.append(bits(b) == z3.BoolVal(val))
            return z3.And(eq) if eq else z3.BoolVal(True)

        def chk(fs):
            sol = z3.Solver()
            sol.set('timeout', SOLVER_MS)
            sol.add(*fs)
            r = str(sol.check())
            q[r] = q.get(r, 0) + 1
            return r, (sol.model() if r == 'sat' else None)
        nodes = {n: dict(d) for n, d in g.nodes(data=True)}
        seen = set()
        for n, d in nodes.items():
            key = tuple(sorted(d.items()))
            if sorted(d) != vrs:
                problems.append(f'node {n} is labelled with {sorted(d)} instead of the variables in the supports {vrs}')
            if key in seen:
                problems.append(f'two nodes carry the valuation {d}')
            seen.add(key)
        if not problems:
            r, m = chk([I] + [z3.Not(state_is(d)) for d in nodes.values()])
            if r == 'sat':
                problems.append(f'initial valuation {link.model_values(m, {k: t[k] for k in vrs}, bits)} is not a node')
            elif r != 'unsat':
                problems.append('unknown')
        initial = set()
        for n, d in nodes.items():
            if problems:
                break
            if z3.is_true(z3.simplify(sub(I, d))):
                initial.add(n)
            An = sub(A, d)
            succ = [nodes[m_] for m_ in g.successors(n)]
            for sd in succ:
                if not z3.is_true(z3.simplify(sub(An, sd, primed=True))):
                    rr, _ = chk([z3.Not(sub(An, sd, primed=True))])
                    if rr != 'unsat':
                        problems.append(f'edge {d} -> {sd} is not a step of the action')
                        break
            r, m = chk([An] + [z3.Not(state_is(sd, primed=True)) for sd in succ])
            if r == 'sat':
                nxt = link.model_values(m, {k: t[k] for k in vrs}, bits, primed=True)
                problems.append(f'node {d}: the step to {nxt} is allowed by the action but is not an edge')
            elif r != 'unsat':
                problems.append('unknown')
        if not problems:
            reach, todo = set(initial), list(initial)
            while todo:
                u = todo.pop()
                for v in g.successors(u):
                    if v not in reach:
                        reach.add(v)
                        todo.append(v)
            if reach != set(nodes):
                problems.append(f'{len(set(nodes) - reach)} node(s) are not reachable from the initial valuations')
        dt = time.time() - t1
        extra = dict(states=len(nodes), transitions=g.number_of_edges())
        sample.update(nodes=len(nodes), edges=g.number_of_edges(), variables=vrs)
        if not problems:
            out.append(core.res(name, 'holds', queries=q, solver_s=dt, sample=sample, nontrivial=g.number_of_edges() >= 2,
                                functions=FUNCS, extra=extra))
        elif problems[0] == 'unknown':
            out.append(core.res(name, 'inconclusive', queries=q, solver_s=dt, sample=sample, detail='solver unknown'))
        else:
            ok, why = replay(dict(cex=dict(kind='sm', seed=seed)))
            out.append(core.res(name, 'violation' if ok else 'inconclusive', queries=q, solver_s=dt, sample=sample, nontrivial=True,
                                functions=FUNCS, signature='state-machine:' + problems[0].split(' ')[0],
                                detail=f'init = {init_s}; action = {act_s}: {problems[0]}; replay: {why}',
                                cex=dict(kind='sm', seed=seed), extra=extra))
    return out


def replay_state_machine(seed):
    """No z3: the reachable graph of the action by brute force over all valuations, with Context.let only."""
    import omega.symbolic.prime as prm
    from vlib.props import c07
    aut, init_s, act_s = build_machine(seed)
    try:
        g, init, action = _sm_enumerate(aut, init_s, act_s)
    except Exception as e:  # noqa
        return True, f'enumerate_state_machine raised {type(e).__name__}: {e}'
    if g is None:
        return False, 'precondition not met'
    vrs = sorted(prm.vars_in_support(init, aut) | prm.vars_in_support(action, aut))
    doms = [c07._vals(aut.vars[k]) for k in vrs]
    allv = [dict(zip(vrs, v)) for v in itertools.product(*doms)]

    def tt(u, cur, nxt=None):
        d = dict(cur)
        if nxt is not None:
            d.update({k + "'": v for k, v in nxt.items()})
        sup = aut.support(u)
        d = {k: v for k, v in d.items() if k in sup}
        return (aut.let(d, u) if d else u) == aut.true
    key = lambda d: tuple(sorted(d.items()))
    want_nodes = {key(d) for d in allv if tt(init, d)}
    todo = [dict(k) for k in want_nodes]
    want_edges = set()
    while todo:
        d = todo.pop()
        for e in allv:
            if tt(action, d, e):
                want_edges.add((key(d), key(e)))
                if key(e) not in want_nodes:
                    want_nodes.add(key(e))
                    todo.append(e)
    labels = {n: dict(dd) for n, dd in g.nodes(data=True)}
    got_nodes = [key(dd) for dd in labels.values()]
    got_edges = {(key(labels[u]), key(labels[v])) for u, v in g.edges()}
    if len(got_nodes) != len(set(got_nodes)) or set(got_nodes) != want_nodes:
        return True, (f'nodes differ from the reachable valuations: {len(got_nodes)} nodes, {len(want_nodes)} reachable; '
                      f'missing {[dict(k) for k in list(want_nodes - set(got_nodes))[:2]]}, '
                      f'extra {[dict(k) for k in list(set(got_nodes) - want_nodes)[:2]]}')
    if got_edges != want_edges:
        return True, (f'edges differ: missing {[(dict(a), dict(b)) for a, b in list(want_edges - got_edges)[:1]]}, '
                      f'extra {[(dict(a), dict(b)) for a, b in list(got_edges - want_edges)[:1]]}')
    return False, 'graph equals the reachable part of the action'


def replay(payload):
    """Brute-force validation of the graph with Context.let only (no z3)."""
    if payload['cex'].get('kind') == 'sm':
        return replay_state_machine(payload['cex']['seed'])
    import omega.games.enumeration as enum
    from vlib import link
    c = make_case(payload['cex']['seed'])
    aut, desc = build_case(c)
    if aut is None:
        return False, 'case not constructible'
    declared = {k: list(v) for k, v in aut.varlist.items()}
    try:
        with contextlib.redirect_stdout(io.StringIO()):
            g = enum.action_to_steps(aut, env='env', sys='impl', qinit=c['qinit'])
    except Exception as e:  # noqa
        return True, f'action_to_steps raised {type(e).__name__}: {e}'
    env, impl = list(aut.varlist['env']), list(aut.varlist['impl'])

    def tt(u, cur, nxt=None):
        d = dict(cur)
        if nxt:
            d.update({k + "'": v for k, v in nxt.items()})
        sup = aut.support(u)
        d = {k: v for k, v in d.items() if k in sup}
        r = aut.let(d, u) if d else u
        return r

    def vals(k):
        d = aut.vars[k]
        if d['type'] == 'bool':
            return [False, True]
        lo, hi = link.rep_range(d)
        return range(lo, hi + 1)
    nodes = {n: dict(d) for n, d in g.nodes(data=True)}
    if len({tuple(sorted(d.items())) for d in nodes.values()}) != len(nodes):
        return True, 'two nodes carry the same valuation'
    for n, m in g.edges():
        if tt(aut.action['env'], nodes[n], nodes[m]) != aut.true or tt(aut.action['impl'], nodes[n], nodes[m]) != aut.true:
            return True, f'edge {nodes[n]} -> {nodes[m]} violates an action'
    for n, d in nodes.items():
        outs = [tuple(nodes[m][k] for k in env) for m in g.successors(n)]
        for xs in itertools.product(*[vals(k) for k in env]):
            xn = dict(zip(env, xs))
            e = tt(aut.action['env'], d, xn)
            allowed = e != aut.false     # some next implementation value completes it
            if allowed != (outs.count(xs) == 1) or outs.count(xs) > 1:
                return True, f'node {d}: next environment value {xn} allowed={allowed}, out-edges={outs.count(xs)}'
    # initial nodes, by enumeration
    init = [nodes[n] for n in g.initial_nodes]
    qi = c['qinit']
    for d in init:
        if tt(aut.init['impl'], d) != aut.true:
            return True, f'initial node {d} violates the initial condition of the implementation'
        if qi != '\\E \\E' and tt(aut.init['env'], d) != aut.true:
            return True, f'initial node {d} violates the environment initial condition'
    allx = [dict(zip(env, xs)) for xs in itertools.product(*[vals(k) for k in env])]
    ally = [dict(zip(impl, ys)) for ys in itertools.product(*[vals(k) for k in impl])]
    if qi == '\\A \\A':
        want = [dict(x, **y) for x in allx for y in ally
                if tt(aut.init['env'], dict(x, **y)) == aut.true and tt(aut.init['impl'], dict(x, **y)) == aut.true]
        if sorted(map(lambda d: sorted(d.items()), want)) != sorted(map(lambda d: sorted(d.items()), init)):
            return True, f'{len(init)} initial nodes, {len(want)} states satisfy both initial conditions'
    elif qi == '\\E \\E':
        if len(init) != 1:
            return True, f'{len(init)} initial nodes for \\E \\E'
    else:
        xs_init = [tuple(d[k] for k in env) for d in init]
        if len(set(xs_init)) != len(xs_init):
            return True, 'two initial nodes for the same environment value'
        if qi == '\\E \\A' and len({tuple(d[k] for k in impl) for d in init}) > 1:
            return True, 'more than one implementation valuation among the initial nodes of \\E \\A'
        y0 = {k: init[0][k] for k in impl} if init else {}
        for x in allx:
            if qi == '\\A \\E':
                admitted = any(tt(aut.init['env'], dict(x, **y)) == aut.true for y in ally)
            else:
                admitted = tt(aut.init['env'], dict(x, **y0)) == aut.true
            if admitted != (tuple(x[k] for k in env) in xs_init):
                return True, f'environment value {x}: admitted by EnvInit = {admitted}, has an initial node = {not admitted}'
    second = second_enumeration(aut, c, declared)
    if second:
        return True, second[0]
    return False, 'edges, input-completeness and initial nodes conform on this graph (liveness: re-run the check)'


def run(tier, seed, t0, only=None):
    n = 320 if tier == 'quick' else 4000
    seeds = [seed * 100000 + i for i in range(n)]
    tasks = []
    for i in range(0, n, 10):
        tasks.append(dict(mod='vlib.props.c12', fn='check_cases', kw=dict(seeds=seeds[i:i + 10]), timeout=1800,
                          name=f'cases[{i}]'))
    for i in range(0, n // 5, 10):
        tasks.append(dict(mod='vlib.props.c12', fn='check_cases', kw=dict(seeds=seeds[i:i + 10]), backend='autoref',
                          timeout=1800, name=f'autoref:cases[{i}]'))
    nsm = 200 if tier == 'quick' else 3000
    sms = [seed * 50000 + i for i in range(nsm)]
    for i in range(0, nsm, 20):
        for be in (('cudd', 'autoref') if i % 100 == 0 else ('cudd',)):
            tasks.append(dict(mod='vlib.props.c12', fn='check_state_machines', kw=dict(seeds=sms[i:i + 20]), backend=be,
                              timeout=1800, name=f'{be}:state-machines[{i}]'))
    if only:
        tasks = [t for t in tasks if only in t['name']]
    results = core.run_tasks(tasks)
    states = sum(r['extra'].get('states', 0) for r in results)
    transitions = sum(r['extra'].get('transitions', 0) for r in results)
    return core.finish(
        PID, tier, seed, 'translation_validation', results, t0, files=FILES,
        bounds=dict(cases=f'{n} seeded cases (2/3 concrete members of the S11/B11a table families, 1/3 integer games with inputs of 2-3 bits); '
                          'Streett and Rabin implementations, 4 qinit forms, Moore and Mealy; unrealizable cases are skipped',
                    env_actions='do not read next component values (environment initial condition over environment variables for the disjoint-state forms)'),
        rule='one obligation per enumerated graph: edges evaluated on the exported actions, input-completeness and initial-set '
             'completeness as z3 queries over the exported environment action / initial conditions, liveness of the concrete graph '
             'by cycle analysis. Non-trivial = the graph has at least two edges',
        assumptions=['z3', 'dd node accessors', 'the implementation itself is C02/C05\'s subject'],
        outside=['environment actions that read next component values', 'graphs above a few hundred nodes'],
        extra_cov=dict(programs=sum(1 for r in results if r['status'] != 'inconclusive'), disagreements_checked=sum(1 for r in results if r['status'] == 'violation'),
                       states=states, transitions=transitions))
