"""C14 — functional synthesis picks, for every solvable input, an output in the relation.

Per instance (Python-level branching on BDD content in `extract_function`): a seeded
relation R over <= 10 bits and every non-empty subset of candidate output bits.
`functions.make_functions` runs for real; R, the functions g_y and the care sets
are exported and z3 decides, for all inputs:
  independence   no g_y depends on a requested output bit (dependence query per bit)
  membership     (exists requested outputs. R)  =>  R[y := g_y]     (ignored outputs free)
  care           replaying the extraction order: forced_y => care_y, and on forced_y
                 the function takes the forced value
Both the `dd.cudd.restrict` path and the fall-back path (dd.cudd hidden).
"""
import itertools
import random
import time

from vlib import core

PID = 'C14'
FILES = ['omega/symbolic/functions.py']
FUNCS = ['functions.make_functions', 'functions.extract_function', 'functions.collect_functions']
SOLVER_MS = 120000


def gen_relation(rnd, nin, nout, ctx):
    """Relation over input identifiers i0.. and output identifiers o0.. (Booleans and small ints)."""
    kinds = rnd.choice(['bool', 'int', 'mixed'])
    decl = {}
    for k in range(nin):
        decl[f'i{k}'] = 'bool' if kinds == 'bool' or (kinds == 'mixed' and k % 2) else rnd.choice([(0, 2), (-1, 1), (-2, -1)])
    for k in range(nout):
        decl[f'o{k}'] = 'bool' if kinds == 'bool' or (kinds == 'mixed' and not k % 2) else rnd.choice([(0, 3), (-2, 1)])
    ints = [k for k, v in decl.items() if v != 'bool']
    bools = [k for k, v in decl.items() if v == 'bool']

    def ga(d):
        if d == 0 or rnd.random() < 0.4 or not ints:
            if ints and rnd.random() < 0.75:
                return ('var', rnd.choice(ints), False)
            return ('num', rnd.randint(-3, 3))
        return ('arith', rnd.choice(['+', '-', '+', '*']), ga(d - 1), ga(d - 1))

    def gb(d):
        r = rnd.random()
        if d == 0 or (not ints and r < 0.3):
            if bools and (not ints or r < 0.5):
                return ('bvar', rnd.choice(bools), False)
            return ('cmp', rnd.choice(['=', '<', '<=', '#']), ('var', rnd.choice(ints), False), ga(0))
        if ints and r < 0.4:
            return ('cmp', rnd.choice(['=', '#', '<', '<=', '>', '>=']), ga(d - 1), ga(d - 1))
        if r < 0.5:
            return ('not', gb(d - 1))
        return ('bin', rnd.choice(['and', 'or', 'implies', 'equiv', 'xor']), gb(d - 1), gb(d - 1))
    return decl, gb(rnd.choice([2, 3]))


def check_relations(seeds):
    import z3
    import omega.symbolic.fol as fol
    import omega.symbolic.functions as fcn
    from vlib import bdd2smt, link, sem
    out = []
    restrict_path = fcn._bdd is not None
    for seed in seeds:
        rnd = random.Random(seed)
        nin, nout = rnd.choice([(2, 2), (3, 2), (2, 3), (3, 3), (4, 2)])
        ctx = fol.Context()
        decl, tree = gen_relation(rnd, nin, nout, ctx)
        ctx.declare(**decl)
        s = sem.to_str(tree)
        r = ctx.add_expr(s)
        if r == ctx.false or r == ctx.true:
            continue
        exp = bdd2smt.Exporter(ctx.bdd)
        bits = exp.bits
        R = exp.export(r)
        obits = []
        for k in decl:
            if k.startswith('o'):
                obits.extend(link.bits_of(k, ctx.vars[k]))
        if len(obits) > 4:
            obits = obits[:4]
        subsets = [c for n in range(1, len(obits) + 1) for c in itertools.combinations(obits, n)]
        if len(subsets) > 12:
            subsets = rnd.sample(subsets, 12)
        for ri, req in enumerate(subsets):
            name = f'make_functions #{seed} outputs={",".join(req)}'
            as_set = ri % 2 == 1
            sample = dict(decl=decl, relation=s, outputs=list(req), restrict_path=restrict_path, container='set' if as_set else 'list')
            t1 = time.time()
            try:
                # the caller's container (a list, or a set for every other subset) is handed over twice: the second
                # answer, for the same container object, is the one that is checked
                arg = set(req) if as_set else list(req)
                fcn.make_functions(r, arg, ctx.bdd)
                fns = fcn.make_functions(r, arg, ctx.bdd)
            except Exception as e:  # noqa
                out.append(core.res(name, 'violation', sample=sample, nontrivial=True, functions=FUNCS,
                                    signature=f'make_functions:{type(e).__name__}',
                                    detail=f'{s!r}, outputs {req}: raised {type(e).__name__}: {e}',
                                    cex=dict(seed=seed, outputs=list(req), as_set=as_set)))
                continue
            order = list(fns)
            G = {y: exp.export(fns[y]['function']) for y in order}
            CARE = {y: exp.export(fns[y]['care_set']) for y in order}
            q = {}
            problems = []

            def chk(f):
                sol = z3.Solver()
                sol.set('timeout', SOLVER_MS)
                sol.add(f)
                r_ = str(sol.check())
                q[r_] = q.get(r_, 0) + 1
                return r_, (sol.model() if r_ == 'sat' else None)
            # independence
            for y in order:
                for ob in req:
                    bb = bits(ob)
                    r_, m = chk(z3.substitute(G[y], (bb, z3.BoolVal(True))) != z3.substitute(G[y], (bb, z3.BoolVal(False))))
                    if r_ != 'unsat':
                        problems.append((f'function for {y} depends on output bit {ob}', r_, m))
            # membership
            insts = [z3.substitute(R, *[(bits(b), z3.BoolVal(v)) for b, v in zip(req, vs)])
                     for vs in itertools.product([False, True], repeat=len(req))]
            Rg = z3.substitute(R, *[(bits(y), G[y]) for y in order])
            r_, m = chk(z3.And(z3.Or(insts), z3.Not(Rg)))
            if r_ != 'unsat':
                problems.append(('some output satisfies the relation but the functions\' values do not', r_, m))
            # care sets, replaying the extraction order
            cur = R
            for i, y in enumerate(order):
                later = order[i + 1:]
                u_insts = [z3.substitute(cur, *[(bits(b), z3.BoolVal(v)) for b, v in zip(later, vs)])
                           for vs in itertools.product([False, True], repeat=len(later))]
                u = z3.Or(u_insts)
                u1 = z3.substitute(u, (bits(y), z3.BoolVal(True)))
                u0 = z3.substitute(u, (bits(y), z3.BoolVal(False)))
                forced = z3.Xor(u1, u0)
                r_, m = chk(z3.And(forced, z3.Not(CARE[y])))
                if r_ != 'unsat':
                    problems.append((f'value of {y} is forced at an input outside its care set', r_, m))
                r_, m = chk(z3.And(forced, G[y] != u1))
                if r_ != 'unsat':
                    problems.append((f'function for {y} differs from the forced value', r_, m))
                cur = z3.substitute(cur, (bits(y), G[y]))
            dt = time.time() - t1
            if not problems:
                out.append(core.res(name, 'holds', queries=q, solver_s=dt, sample=sample, nontrivial=bool(order), functions=FUNCS))
                continue
            label, r_, m = problems[0]
            if r_ != 'sat':
                out.append(core.res(name, 'inconclusive', queries=q, solver_s=dt, sample=sample, detail=f'{label}: {r_}'))
                continue
            sigma = link.model_values(m, ctx.vars, bits)
            cex = dict(seed=seed, outputs=list(req), sigma=sigma, label=label, as_set=as_set)
            ok, why = replay(dict(cex=cex))
            out.append(core.res(name, 'violation' if ok else 'inconclusive', queries=q, solver_s=dt, sample=sample,
                                nontrivial=True, functions=FUNCS, signature='make_functions:' + label.split(' ')[0],
                                detail=f'{s!r} with {decl}, outputs {req}: {label} at {sigma}; replay: {why}', cex=cex))
    return out


def replay(payload):
    """Brute force over bit assignments on the real functions (no z3)."""
    import omega.symbolic.fol as fol
    import omega.symbolic.functions as fcn
    from vlib import link, sem
    c = payload['cex']
    rnd = random.Random(c['seed'])
    nin, nout = rnd.choice([(2, 2), (3, 2), (2, 3), (3, 3), (4, 2)])
    ctx = fol.Context()
    decl, tree = gen_relation(rnd, nin, nout, ctx)
    ctx.declare(**decl)
    r = ctx.add_expr(sem.to_str(tree))
    req = c['outputs']
    try:
        arg = set(req) if c.get('as_set') else list(req)
        fcn.make_functions(r, arg, ctx.bdd)
        fns = fcn.make_functions(r, arg, ctx.bdd)
    except Exception as e:  # noqa
        return True, f'raised {type(e).__name__}: {e}'
    bdd = ctx.bdd
    allbits = sorted(bdd.support(r) | set(req))
    order = list(fns)
    for vs in itertools.product([False, True], repeat=len(allbits)):
        a = dict(zip(allbits, vs))

        def ev(u, asg):
            w = bdd.let({k: v for k, v in asg.items() if k in bdd.support(u)}, u)
            return w == bdd.true
        gv = {}
        for y in order:
            g = fns[y]['function']
            if set(req) & bdd.support(g):
                return True, f'function for {y} has output bits in its support'
            gv[y] = ev(g, a)
        exists = any(ev(r, dict(a, **dict(zip(req, ws)))) for ws in itertools.product([False, True], repeat=len(req)))
        if exists and not ev(r, dict(a, **gv)):
            return True, f'at {a}: an output exists but the functions give {gv}, not in the relation'
    # care-set obligations, replaying the extraction order with dd operations (trusted)
    cur = r
    for i, y in enumerate(order):
        later = order[i + 1:]
        u = bdd.exist(later, cur) if later else cur
        u1, u0 = bdd.let({y: True}, u), bdd.let({y: False}, u)
        forced = bdd.apply('xor', u1, u0)
        g, care = fns[y]['function'], fns[y]['care_set']
        if (forced & ~ care) != bdd.false:
            a = bdd.pick(forced & ~ care)
            return True, f'value of {y} is forced at {a}, which is outside its care set'
        if (forced & bdd.apply('xor', g, u1)) != bdd.false:
            a = bdd.pick(forced & bdd.apply('xor', g, u1))
            return True, f'function for {y} differs from the forced value at {a}'
        cur = bdd.let({y: g}, cur)
    return False, 'membership and care-set obligations hold on every bit assignment'


def run(tier, seed, t0, only=None):
    n = 200 if tier == 'quick' else 3000
    tasks = []
    for be in ('cudd', 'autoref'):
        seeds = [seed * 10000 + i for i in range(n)]
        for i in range(0, n, 4):
            tasks.append(dict(mod='vlib.props.c14', fn='check_relations', kw=dict(seeds=seeds[i:i + 4]), backend=be,
                              timeout=1800, name=f'{be}:relations[{i}]'))
    if only:
        tasks = [t for t in tasks if only in t['name']]
    results = core.run_tasks(tasks)
    return core.finish(
        PID, tier, seed, 'model_checking', results, t0, files=FILES,
        bounds=dict(relations=f'{n} seeded formulas per back end over 2-4 input and 2-3 output identifiers (<= 10 bits)',
                    outputs='every non-empty subset of up to 4 candidate output bits (at most 12 per relation)',
                    paths='dd.cudd.restrict path (cudd) and fall-back path g = p (dd.cudd hidden)'),
        rule='one obligation per (relation, requested output bits): independence queries per (function, output bit), '
             'one membership query, two care-set queries per function, all inputs symbolic. Non-trivial = at least one '
             'function was extracted',
        assumptions=['z3', 'dd node accessors', '"contains exactly" is read as: care set contains the inputs where the '
                     'value is forced and the function takes the forced value there (the code deliberately enlarges '
                     'care sets when it can eliminate an input; see DESIGN.md C14)'],
        outside=['relations over more than ~10 bits'])
