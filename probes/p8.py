"""Rabin family: region, duality with Streett on the dual game."""
import time, itertools, sys, z3
from p3 import build, table_expr
from p1 import export
import omega.games.gr1 as gr1
import omega.symbolic.temporal as trl
ng, nh, ef = int(sys.argv[1]), int(sys.argv[2]), sys.argv[3] == '1'
modes = list(itertools.product([True, False], repeat=2))
if len(sys.argv) > 4:
    modes = [modes[int(sys.argv[4])]]
for moore, plus_one in modes:
    aut, allp = build(moore, plus_one, ng, nh, ef)
    t0 = time.time()
    zS, _, _ = gr1.solve_streett_game(aut)
    tS = time.time() - t0
    # dual game in the same manager: roles swapped
    dual = trl.Automaton()
    dual.bdd = aut.bdd
    dual.vars = aut.vars
    dual.varlist = dict(env=['y'], sys=['x'])
    dual.init['env'] = dual.true; dual.init['sys'] = dual.true
    dual.action['env'] = aut.action['sys']; dual.action['sys'] = aut.action['env']
    dual.win['<>[]'] = [~ g for g in aut.win['[]<>']]
    dual.win['[]<>'] = [~ h for h in aut.win['<>[]']]
    dual.moore = not moore; dual.plus_one = not plus_one; dual.qinit = r'\A \A'
    dual.prime_varlists()
    t0 = time.time()
    zk, yki, xkijr = gr1.solve_rabin_game(dual)
    zR = zk[-1]
    tR = time.time() - t0
    print('mode', moore, plus_one, f'streett {tS:.1f}s {len(zS)} nodes; rabin(dual) {tR:.1f}s {len(zR)} nodes, {len(zk)} outer iterates', flush=True)
    # BDD-level (not the deciding step, just a look): complementary?
    print('  bdd says complementary:', zS == ~ zR)
    bits = {}; bvf = lambda n: bits.setdefault(n, z3.Bool(n)); cache = {}
    eS = export(zS, aut.bdd, cache, bvf); eR = export(zR, aut.bdd, cache, bvf)
    sol = z3.Solver(); sol.add(z3.Not(z3.Xor(eS, eR)))
    t0 = time.time(); r = sol.check()
    print('  z3 duality', r, f'{time.time()-t0:.1f}s', flush=True)
    if str(r) == 'sat':
        m = sol.model(); print({str(d): m[d] for d in m.decls() if z3.is_true(m[d])})
