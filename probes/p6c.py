import time, itertools, sys, z3
from p3 import build
from p1 import export
import omega.games.gr1 as gr1
ng, nh, ef = int(sys.argv[1]), int(sys.argv[2]), sys.argv[3] == '1'
for moore, plus_one in itertools.product([True, False], repeat=2):
    aut, allp = build(moore, plus_one, ng, nh, ef)
    t0 = time.time()
    z, yij, xijk = gr1.solve_streett_game(aut)
    aut.init['env'] = z
    gr1.make_streett_transducer(z, yij, xijk, aut)
    A = aut.action['impl']
    print('mode', moore, plus_one, 'impl nodes', len(A), f'{time.time()-t0:.1f}s', [len(x) for x in xijk], flush=True)
    bits = {}; bvf = lambda n: bits.setdefault(n, z3.Bool(n)); cache = {}
    ex = lambda u: export(u, aut.bdd, cache, bvf)
    eA, eZ, eE = ex(A), ex(z), ex(aut.action['env'])
    gb = aut.vars['_goal']['bitnames']
    cur = ['x', 'y']
    def prime_state(e):   # state predicate at next state
        return z3.substitute(e, *[(bvf(b), bvf(b + "'")) for b in cur])
    def cval(primed):
        return z3.Sum([z3.If(bvf(b + ("'" if primed else '')), 2**i, 0) for i, b in enumerate(gb)] + [z3.IntVal(0)])
    goals = [ex(g) for g in aut.win['[]<>']]; holds = [ex(h) for h in aut.win['<>[]']]
    obligations = []
    for j in range(ng):
        order = []  # (term, k)
        for xk in xijk[j]:
            for k, x in enumerate(xk):
                order.append((ex(x), k))
        L = len(order)
        def pos(primed):
            p = z3.IntVal(L)
            for idx in reversed(range(L)):
                t = order[idx][0]
                if primed: t = prime_state(t)
                p = z3.If(t, idx, p)
            return p
        def hold_at_pos():
            h = z3.BoolVal(False)
            for idx in reversed(range(L)):
                h = z3.If(order[idx][0], holds[order[idx][1]], h)
            return h
        p0, p1 = pos(False), pos(True)
        adv = z3.And(goals[j], cval(True) == (j + 1) % ng)
        dec = z3.And(cval(True) == j, p1 < p0)
        stay = z3.And(cval(True) == j, p1 == p0, hold_at_pos())
        hyp = z3.And(eZ, cval(False) == j, eA, eE)
        obligations.append(z3.And(hyp, z3.Not(z3.Or(adv, dec, stay))))
        obligations.append(z3.And(eZ, p0 >= L))   # rank defined on all of z
    sol = z3.Solver()
    for ob in obligations:
        sol.push(); sol.add(ob); t0 = time.time(); r = sol.check(); print('  obligation', r, f'{time.time()-t0:.1f}s', flush=True); sol.pop()
