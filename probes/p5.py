import time, itertools, random, sys, z3, logging
import omega.symbolic.fol as _fol
import omega.symbolic.cover as cov
import omega.symbolic.cover_enum as cove
logging.disable(logging.CRITICAL)
def run(nv, hi, seed):
    rnd = random.Random(seed)
    names = ['x','y','z','w'][:nv]
    pts = list(itertools.product(range(hi+1), repeat=nv))
    fset = {p for p in pts if rnd.random() < 0.5}
    if not fset or len(fset) == len(pts): return None
    ctx = _fol.Context(); ctx.declare(**{n: (0, hi) for n in names})
    f = ctx.false
    for p in fset: f |= ctx.assign_from(dict(zip(names, p)))
    care = ctx.add_expr(' /\\ '.join(f'({n} \\in 0..{hi})' for n in names))
    try:
        cover = cov.minimize(f, care, ctx)
    except Exception as e:
        return ('EXC', type(e).__name__, str(e)[:80], sorted(fset))
    boxes = list(ctx.pick_iter(cover))
    k = len(boxes)
    # z3: exists k-1 implicant boxes covering f
    def mincheck(k):
        A = [[z3.Int(f'a{i}_{n}') for n in names] for i in range(k)]
        Bv = [[z3.Int(f'b{i}_{n}') for n in names] for i in range(k)]
        s = z3.Solver()
        for i in range(k):
            for j in range(nv):
                s.add(0 <= A[i][j], A[i][j] <= Bv[i][j], Bv[i][j] <= hi)
        def inbox(i, p): return z3.And([z3.And(A[i][j] <= p[j], p[j] <= Bv[i][j]) for j in range(nv)])
        for p in pts:
            if p in fset: s.add(z3.Or([inbox(i, p) for i in range(k)]))
            else: s.add(z3.And([z3.Not(inbox(i, p)) for i in range(k)]))
        return s.check()
    t0 = time.time()
    r = mincheck(k - 1) if k > 1 else 'n/a'
    r2 = mincheck(k)
    try:
        allc = cove.minimize(f, care, ctx)
        ne = len(allc)
    except AssertionError as e:
        ne = 'AssertionError'
    return (k, str(r), str(r2), f'{time.time()-t0:.2f}s', 'enum', ne)
nv, hi = int(sys.argv[1]), int(sys.argv[2])
for seed in range(int(sys.argv[3])):
    print(seed, run(nv, hi, seed), flush=True)
