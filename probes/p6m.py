# mutant: drop `u &= hold` in rho_3 of make_streett_transducer (via source patch in memory)
import inspect, re, sys
import omega.games.gr1 as gr1
src = inspect.getsource(gr1.make_streett_transducer)
which = sys.argv.pop(1)
if which == 'nohold':
    src2 = src.replace("                u &= hold\n", "")
elif which == 'nextgoal':
    src2 = src.replace("ip = (i + 1) % len(goals)", "ip = i")
assert src2 != src
ns = gr1.__dict__
exec(compile(src2, 'mutant', 'exec'), ns)
sys.argv = ['p6f.py'] + sys.argv[1:]
exec(open('/tmp/probe/p6f.py').read())
