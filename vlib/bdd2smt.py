"""Export of Boolean functions produced by the real code to z3.

* `Exporter.export(u)`: BDD (dd.cudd or dd.autoref Function) -> z3 Bool term,
  linear DAG walk over `.var/.low/.high/.negated`.
* `slugsin2smt(s, bitvar)`: independent reader of the bitblaster's prefix
  ("slugsin") strings, quantifiers included.
"""
import z3


class Bits:
    """Name -> z3 Bool, one z3 constant per BDD bit name."""

    def __init__(self):
        self.d = {}

    def __call__(self, name):
        b = self.d.get(name)
        if b is None:
            b = self.d[name] = z3.Bool(name)
        return b


class Exporter:
    def __init__(self, bdd, bits=None):
        self.bdd = bdd
        self.bits = bits if bits is not None else Bits()
        self.cache = {}
        self.nodes = 0
        # every exported node is kept referenced for the life time of the exporter: the cache is keyed by node
        # identifiers, and a manager may hand the identifier of a collected node to a different function
        self.keep = []

    def export(self, u):
        bdd = self.bdd
        true, false = bdd.true, bdd.false
        cache = self.cache
        bits = self.bits
        # iterative post-order to avoid recursion limits on deep BDDs
        def regular(v):
            return (~v, True) if v.negated else (v, False)
        if u == true:
            return z3.BoolVal(True)
        if u == false:
            return z3.BoolVal(False)
        root, rneg = regular(u)
        stack = [root]
        while stack:
            v = stack[-1]
            k = int(v)
            if k in cache:
                stack.pop()
                continue
            if v == true:
                cache[k] = z3.BoolVal(True)
                stack.pop()
                continue
            if v == false:   # regular(false) may be ~true depending on back end
                cache[k] = z3.BoolVal(False)
                stack.pop()
                continue
            lo, hi = v.low, v.high
            lo_r, lo_n = regular(lo)
            hi_r, hi_n = regular(hi)
            pending = [w for w in (lo_r, hi_r) if int(w) not in cache]
            if pending:
                stack.extend(pending)
                continue
            tl = cache[int(lo_r)]
            th = cache[int(hi_r)]
            if lo_n:
                tl = z3.Not(tl)
            if hi_n:
                th = z3.Not(th)
            cache[k] = z3.If(bits(v.var), th, tl)
            self.keep.append(v)
            self.nodes += 1
            stack.pop()
        t = cache[int(root)]
        return z3.Not(t) if rneg else t


def export(u, bdd, bits=None):
    return Exporter(bdd, bits).export(u)


class SlugsinError(Exception):
    pass


def slugsin2smt(s, bitvar):
    """Prefix formula -> z3 term. Grammar (omega/symbolic/bdd.py docstring):
    ! & | ^ (xor)  $ n e1..en (memory buffer, value = last)  ? i (memory ref)
    \\A \\E  (& bits..) body, \\S $n ... substitution, 0/1, identifiers."""
    toks = s.split()
    n = len(toks)
    pos = [0]

    def nxt():
        if pos[0] >= n:
            raise SlugsinError('unexpected end')
        t = toks[pos[0]]
        pos[0] += 1
        return t

    def qvars():
        # quantified variables are given as a conjunction of names: & a & b c, or a single name
        t = nxt()
        if t == '&':
            return qvars() + qvars()
        if t == '!':
            raise SlugsinError('negation in quantified variable list')
        return [t]

    def rec(mem):
        t = nxt()
        if t == '!':
            return z3.Not(rec(mem))
        if t in ('&', '|', '^'):
            a = rec(mem)
            b = rec(mem)
            if t == '&':
                return z3.And(a, b)
            if t == '|':
                return z3.Or(a, b)
            return z3.Xor(a, b)
        if t == '$':
            k = int(nxt())
            m = []
            for _ in range(k):
                m.append(rec(m))
            return m[-1]
        if t == '?':
            i = int(nxt())
            if mem is None or i >= len(mem):
                raise SlugsinError('bad memory ref %d' % i)
            return mem[i]
        if t == '0':
            return z3.BoolVal(False)
        if t == '1':
            return z3.BoolVal(True)
        if t in ('\\A', '\\E'):
            names = qvars()
            body = rec(mem)
            # finite expansion keeps the query quantifier-free
            for name in names:
                v = bitvar(name)
                b1 = z3.substitute(body, (v, z3.BoolVal(True)))
                b0 = z3.substitute(body, (v, z3.BoolVal(False)))
                body = z3.And(b0, b1) if t == '\\A' else z3.Or(b0, b1)
            return body
        if t == '\\S':
            raise SlugsinError('substitution not supported')
        return bitvar(t)

    r = rec(None)
    if pos[0] != n:
        raise SlugsinError('trailing tokens at %d of %d' % (pos[0], n))
    return r
