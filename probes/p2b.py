import time, z3, itertools, sys
import omega.logic.bitvector as bv
from p2 import slugs_to_z3, link
mode = sys.argv[1]
doms = [(0,6),(-3,4),(-8,-1),(0,30),(-16,15),(0,63),(-128,127)]
def bits_of(dom):
    signed, w = bv.dom_to_width(dom); return signed, w
for dx, dy in itertools.product(doms, doms):
    t = bv.bitblast_table(dict(x=dict(type='int', dom=dx), y=dict(type='int', dom=dy), r=dict(type='int', dom=(-40000, 40000))))
    s = bv.bitblast('(x * y) = r', t)
    bits = {}
    bvf = lambda n: bits.setdefault(n, z3.Bool(n))
    e = slugs_to_z3(s, bvf)
    X, Y, R = z3.Ints('X Y R')
    sol = z3.Solver(); sol.set('timeout', 60000)
    sol.add(link('x', X, t, bvf), link('y', Y, t, bvf), link('r', R, t, bvf))
    if mode == 'lin':
        d = t['y']; bn = d['bitnames']; w = d['width']
        if d['signed']:
            P = z3.Sum([z3.If(bvf(b), X * 2**i, 0) for i, b in enumerate(bn[:-1])] + [z3.IntVal(0)]) - z3.If(bvf(bn[-1]), X * 2**(w-1), 0)
        else:
            P = z3.Sum([z3.If(bvf(b), X * 2**i, 0) for i, b in enumerate(bn)])
            if d['dom'][0] < 0: P = P - X * 2**w
        ref = (P == R)
    else:
        W = 40
        def tobv(name):
            d = t[name]; bn = d['bitnames']; w = d['width']
            v = z3.Concat(*[z3.If(bvf(b), z3.BitVecVal(1,1), z3.BitVecVal(0,1)) for b in reversed(bn)]) if len(bn) > 1 else z3.If(bvf(bn[0]), z3.BitVecVal(1,1), z3.BitVecVal(0,1))
            if d['signed']: return z3.SignExt(W - w, v)
            v = z3.ZeroExt(W - w, v)
            if d['dom'][0] < 0: v = v - z3.BitVecVal(2**w, W)
            return v
        ref = (tobv('x') * tobv('y') == tobv('r'))
    sol.add(e != ref)
    t0 = time.time(); r = sol.check()
    print(mode, dx, dy, r, f'{time.time()-t0:.2f}s', flush=True)
