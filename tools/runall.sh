#!/bin/sh
# Run every registered check (quick tier by default) on the current /repo and report exit codes.
# Regenerates /verif/evidence/*.json; refuses when /repo has uncommitted changes to tracked files.
cd "$(dirname "$0")/.." || exit 2
TIER=${1:-quick}
if [ -n "$(git -C /repo status --porcelain --untracked-files=no)" ]; then echo "/repo is not clean"; exit 2; fi
rc=0
for c in C01 C02 C03 C04 C05 C06 C07 C08 C09 C10 C11 C12 C13 C14 C15 C17 C18 C19 C20; do
    ./check $c --tier $TIER > /tmp/runall_$c.out 2>&1; e=$?
    echo "$c exit $e: $(grep "^$c \[" /tmp/runall_$c.out | tail -1 | cut -c1-200)"
    grep "^KNOWN-FINDING" /tmp/runall_$c.out | cut -c1-160
    [ $e -ne 0 ] && rc=1
done
exit $rc
