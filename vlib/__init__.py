"""Solver-based checking of tulip-control/omega (see /verif/DESIGN.md)."""
