"""Family-level exact liveness: explicit product states, symbolic-parameter edges, unrolled fair-cycle fixpoint."""
import time, itertools, sys, z3
from p3 import build
from p1 import export
import omega.games.gr1 as gr1
ng, nh, ef = int(sys.argv[1]), int(sys.argv[2]), sys.argv[3] == '1'
modes = list(itertools.product([True, False], repeat=2))
if len(sys.argv) > 4:
    modes = [modes[int(sys.argv[4])]]
for moore, plus_one in modes:
    aut, allp = build(moore, plus_one, ng, nh, ef)
    z, yij, xijk = gr1.solve_streett_game(aut)
    aut.init['env'] = z
    gr1.make_streett_transducer(z, yij, xijk, aut)
    A = aut.action['impl']; I = aut.init['impl']
    bits = {}; bvf = lambda n: bits.setdefault(n, z3.Bool(n)); cache = {}
    ex = lambda u: export(u, aut.bdd, cache, bvf)
    eT = z3.And(ex(A), ex(aut.action['env']))
    eI = z3.And(ex(I), ex(aut.init['env']))
    gb = aut.vars['_goal']['bitnames']
    cur = ['x', 'y'] + gb
    nodes = list(itertools.product([False, True], repeat=len(cur)))
    def inst(e, p, q=None):
        sub = [(bvf(b), z3.BoolVal(v)) for b, v in zip(cur, p)]
        if q is not None:
            sub += [(bvf(b + "'"), z3.BoolVal(v)) for b, v in zip(cur, q)]
        return z3.simplify(z3.substitute(e, *sub))
    t0 = time.time()
    T = {(p, q): inst(eT, p, q) for p in nodes for q in nodes}
    init = {p: inst(eI, p) for p in nodes}
    goals = [{p: inst(ex(g), p) for p in nodes} for g in aut.win['[]<>']]
    holds = [{p: inst(ex(h), p) for p in nodes} for h in aut.win['<>[]']]
    N = len(nodes)
    # reach
    R = dict(init)
    for _ in range(N):
        R = {q: z3.Or([R[q]] + [z3.And(R[p], T[(p, q)]) for p in nodes]) for q in nodes}
    def EX(C):  # within C
        return {p: z3.Or([z3.And(T[(p, q)], C[q]) for q in nodes]) for p in nodes}
    def EU(C, F):  # E[C U (C & F)]
        Y = {p: z3.And(C[p], F[p]) for p in nodes}
        for _ in range(N):
            ex_ = EX(Y)
            Y = {p: z3.Or(Y[p], z3.And(C[p], ex_[p])) for p in nodes}
        return Y
    viol = []
    for j in range(ng):
        C = {p: z3.And(R[p], z3.Not(goals[j][p])) for p in nodes}
        for _ in range(N):
            new = dict(C)
            for k in range(nh):
                eu = EU(C, {p: z3.Not(holds[k][p]) for p in nodes})
                ex_ = EX(eu)
                new = {p: z3.And(new[p], ex_[p]) for p in nodes}
            if nh == 0:
                ex_ = EX(C); new = {p: z3.And(new[p], ex_[p]) for p in nodes}
            C = new
        viol.append(z3.Or([C[p] for p in nodes]))
    t1 = time.time()
    sol = z3.Solver(); sol.add(z3.Or(viol))
    r = sol.check()
    print('mode', moore, plus_one, 'N', N, 'faircycle', r, f'build {t1-t0:.1f}s solve {time.time()-t1:.1f}s', flush=True)
