"""CrossHair harnesses for the name-mangling kernels of omega.steps (C19).

Component names: non-empty, no underscore (so a mangled hidden name `name + '_x'` has a
unique split).  Hidden variables start with '_', visible ones do not.
"""
import omega.steps as steps


class _Machine:
    def __init__(self, names):
        self.vars = {k: dict(type='bool') for k in names}


def _ok_name(n: str) -> bool:
    return 1 <= len(n) <= 2 and all(c in 'ab' for c in n)


def _ok_visible(k: str) -> bool:
    return 1 <= len(k) <= 2 and all(c in 'ab' for c in k)   # visible names: no underscore


def _ok_hidden(k: str) -> bool:
    return 2 <= len(k) <= 3 and k.startswith('_') and all(c in 'ab_' for c in k)


def prop_local_global_roundtrip(name: str, vis: str, hid: str, v1: int, v2: int) -> bool:
    """
    pre: _ok_name(name) and _ok_visible(vis) and _ok_hidden(hid)
    post: _
    """
    asm = steps.Assembly()
    local = {vis: v1, hid: v2}
    machine = _Machine([vis, hid])
    glob = asm._to_global_state(dict(local), name)
    back = asm._to_local_state(glob, name, machine)
    return back == local and vis in glob and (name + hid) in glob and hid not in glob


def reach_local_global_roundtrip(name: str, vis: str, hid: str, v1: int, v2: int) -> bool:
    """
    pre: _ok_name(name) and _ok_visible(vis) and _ok_hidden(hid)
    post: not _
    """
    asm = steps.Assembly()
    return len(asm._to_global_state({vis: v1, hid: v2}, name)) == 2


NAMES = ['a', 'b', 'ab', 'ba', 'aa', 'bb']


def prop_isolation(i: int, j: int, hid: str) -> bool:
    """
    pre: 0 <= i < 6 and 0 <= j < 6 and i != j
    pre: _ok_hidden(hid)
    post: _
    """
    # two components that both use the hidden name `hid` (e.g. two synthesized `_goal` counters);
    # component names are enumerated (CrossHair 0.0.110 mis-models `startswith(prefix + '_')` on two
    # symbolic strings: it reported ('b', 'ba', '_a'), which does not reproduce), the hidden name is symbolic
    n1, n2 = NAMES[i], NAMES[j]
    asm = steps.Assembly()
    g1 = asm._to_global_state({hid: 1, n2: 7}, n1)    # component 1 also controls a visible variable named like component 2
    g2 = asm._to_global_state({hid: 2}, n2)
    if set(g1) & set(g2):
        return False
    state = dict(g1)
    state.update(g2)
    m1 = _Machine([hid, n2])
    m2 = _Machine([hid, n2])
    loc1 = asm._to_local_state(state, n1, m1)
    loc2 = asm._to_local_state(state, n2, m2)
    return loc1 == {hid: 1, n2: 7} and loc2 == {hid: 2, n2: 7}


def reach_isolation(i: int, j: int, hid: str) -> bool:
    """
    pre: 0 <= i < 6 and 0 <= j < 6 and i != j
    pre: _ok_hidden(hid)
    post: not _
    """
    asm = steps.Assembly()
    return len(asm._to_global_state({hid: 1}, NAMES[i])) == 1
