"""CrossHair harnesses for the integer<->bit kernels behind C07 (contracts in docstrings)."""
from typing import List, Optional

import omega.logic.bitvector as bv
import omega.symbolic.enumeration as en
import omega.symbolic.fol as fol

TABLE = bv.bitblast_table(dict(
    a=dict(type='bool'), x=dict(type='int', dom=(0, 5)), y=dict(type='int', dom=(-3, 2)),
    z=dict(type='int', dom=(-3, -1))))
RANGE = dict(x=(0, 7), y=(-4, 3), z=(-4, -1))


def _decode(name, assignment):
    """Independent decoding: two's complement with omitted constant sign bit."""
    d = TABLE[name]
    bn = d['bitnames']
    w = len(bn)
    u = sum(2 ** i for i, b in enumerate(bn) if assignment[b])
    if d['signed']:
        return u - 2 ** w if u >= 2 ** (w - 1) else u
    if d['dom'][0] < 0:
        return u - 2 ** w
    return u


def _expansions(bits):
    n = len(bits)
    want = []
    for k in range(2 ** n):
        if all(bits[i] is None or bool(bits[i]) == bool((k >> i) & 1) for i in range(n)):
            v = sum(2 ** i for i in range(n - 1) if (k >> i) & 1)
            if (k >> (n - 1)) & 1:
                v -= 2 ** (n - 1)
            want.append(v)
    return sorted(want)


def prop_enumerate_int(bits: List[Optional[bool]]) -> bool:
    """
    pre: 2 <= len(bits) <= 4
    post: _
    """
    got = sorted(en._enumerate_int(list(bits)))
    return got == _expansions(bits)


def reach_enumerate_int(bits: List[Optional[bool]]) -> bool:
    """
    pre: 2 <= len(bits) <= 4
    post: not _
    """
    return len(list(en._enumerate_int(list(bits)))) >= 1


def prop_twos_complement(x: int) -> bool:
    """
    pre: -70 <= x <= 70
    post: _
    """
    b = bv.int_to_twos_complement(x)
    n = len(b)
    val = sum(2 ** i for i in range(n - 1) if b[i] == '1') - (2 ** (n - 1) if b[-1] == '1' else 0)
    return val == x and all(c in ('0', '1') for c in b) and n >= 2 and bv.twos_complement_to_int(b) == x


def reach_twos_complement(x: int) -> bool:
    """
    pre: -70 <= x <= 70
    post: not _
    """
    return len(bv.int_to_twos_complement(x)) >= 2


def prop_int_to_bit_assignment(which: int, value: int) -> bool:
    """
    pre: 0 <= which <= 2
    pre: -12 <= value <= 12
    post: _
    """
    name = ('x', 'y', 'z')[which]
    lo, hi = RANGE[name]
    if not (lo <= value <= hi):
        # outside the representable range: outside the claim (sign-definite
        # identifiers refuse such values, signed ones truncate them silently)
        return True
    d = fol._int_to_bit_assignment(name, value, TABLE)
    return set(d) == set(TABLE[name]['bitnames']) and _decode(name, d) == value


def reach_int_to_bit_assignment(which: int, value: int) -> bool:
    """
    pre: 0 <= which <= 2
    pre: -12 <= value <= 12
    post: not _
    """
    name = ('x', 'y', 'z')[which]
    lo, hi = RANGE[name]
    return lo <= value <= hi and len(fol._int_to_bit_assignment(name, value, TABLE)) > 0


def prop_bitfields_to_int(a: Optional[bool], x0: Optional[bool], x1: Optional[bool], x2: Optional[bool],
                          z0: Optional[bool], z1: Optional[bool]) -> bool:
    """
    post: _
    """
    given = dict(a=a, x_0=x0, x_1=x1, x_2=x2, z_0=z0, z_1=z1)
    bits = {k: v for k, v in given.items() if v is not None}
    got = list(en._bitfields_to_int_iter(bits, TABLE))
    keys = set()
    if a is not None:
        keys.add('a')
    if any(v is not None for v in (x0, x1, x2)):
        keys.add('x')
    if any(v is not None for v in (z0, z1)):
        keys.add('z')
    xs = _expansions([x0, x1, x2, False]) if 'x' in keys else [None]
    zs = _expansions([z0, z1, True]) if 'z' in keys else [None]
    want = []
    for xv in xs:
        for zv in zs:
            d = dict()
            if 'a' in keys:
                d['a'] = a
            if 'x' in keys:
                d['x'] = xv
            if 'z' in keys:
                d['z'] = zv
            want.append(d)
    canon = lambda L: sorted(sorted(d.items()) for d in L)
    return canon(got) == canon(want)


def reach_bitfields_to_int(a: Optional[bool], x0: Optional[bool], x1: Optional[bool], x2: Optional[bool],
                           z0: Optional[bool], z1: Optional[bool]) -> bool:
    """
    post: not _
    """
    given = dict(a=a, x_0=x0, x_1=x1, x_2=x2, z_0=z0, z_1=z1)
    bits = {k: v for k, v in given.items() if v is not None}
    return len(list(en._bitfields_to_int_iter(bits, TABLE))) >= 1
