import time, itertools, sys, z3
from p3 import build
from p1 import export
import omega.games.gr1 as gr1
S = list(itertools.product([0,1], repeat=2))
ng, nh, ef = int(sys.argv[1]), int(sys.argv[2]), sys.argv[3] == '1'
for moore, plus_one in itertools.product([True, False], repeat=2):
    aut, allp = build(moore, plus_one, ng, nh, ef)
    t0 = time.time()
    z, yij, xijk = gr1.solve_streett_game(aut)
    aut.init['env'] = z    # family trick: EnvInit := Win so that \A \A realizability holds for every parameter value
    gr1.make_streett_transducer(z, yij, xijk, aut)
    A = aut.action['impl']; I = aut.init['impl']
    print('mode', moore, plus_one, 'impl nodes', len(A), 'support', sorted(aut.support(A) - set(allp)), f'{time.time()-t0:.1f}s', aut.vars['_goal'], flush=True)
    bits = {}; bvf = lambda n: bits.setdefault(n, z3.Bool(n))
    cache = {}
    eA = export(A, aut.bdd, cache, bvf); eZ = export(z, aut.bdd, cache, bvf)
    eE = export(aut.action['env'], aut.bdd, cache, bvf); eS = export(aut.action['sys'], aut.bdd, cache, bvf)
    goal_bits = aut.vars['_goal']['bitnames']
    cur = ['x', 'y'] + goal_bits
    nxt = [b + "'" for b in cur]
    def at(e, i, j):
        """instantiate term over (cur,nxt) at time frames i, j"""
        sub = [(bvf(b), z3.Bool(f'{b}@{i}')) for b in cur] + [(bvf(b), z3.Bool(f'{b[:-1]}@{j}')) for b in nxt]
        return z3.substitute(e, *sub)
    # one-step obligations at frame 0->1
    inv0 = at(eZ, 0, 1)
    c_rng = lambda i: z3.BoolVal(True)  # width-1 counter with ng=1: value must be 0
    if ng == 1: c_rng = lambda i: z3.Not(z3.Bool(f'{goal_bits[0]}@{i}'))
    sol = z3.Solver()
    # (a) safety
    A01, E01, S01 = at(eA, 0, 1), at(eE, 0, 1), at(eS, 0, 1)
    hyp = z3.And(inv0, c_rng(0), A01) if plus_one else z3.And(inv0, c_rng(0), A01, E01)
    sol.push(); sol.add(hyp, z3.Not(S01)); t0 = time.time(); print(' safety', sol.check(), f'{time.time()-t0:.1f}s'); sol.pop()
    # (b) closure
    sol.push(); sol.add(inv0, c_rng(0), A01, E01, z3.Not(z3.And(at(eZ, 1, 2), c_rng(1)))); t0 = time.time(); print(' closure', sol.check(), f'{time.time()-t0:.1f}s'); sol.pop()
    # (c) nonblocking
    nx = [z3.Bool(f'{b}@1') for b in cur]
    xq = [z3.Bool('x@1')]; yq = [z3.Bool(f'{b}@1') for b in cur[1:]]
    if moore:
        nb = z3.Exists(yq, z3.ForAll(xq, A01))
    else:
        nb = z3.ForAll(xq, z3.Exists(yq, A01))
    sol.push(); sol.add(inv0, c_rng(0), z3.Not(nb)); t0 = time.time(); print(' nonblock', sol.check(), f'{time.time()-t0:.1f}s'); sol.pop()
    # (d) lasso BMC: N = 4 states * ng counter values (counter width1 -> 2 codes but range-limited)
    N = 4 * ng; m = nh
    K = (m + 1) * N   # stem <= N-1, loop <= max(1,m)*N
    t0 = time.time()
    sol = z3.Solver(); sol.set('timeout', 900000)
    sol.add(at(eZ, 0, 1), c_rng(0))
    for i in range(K):
        sol.add(at(eA, i, i+1), at(eE, i, i+1))
    # loop start l in 0..K-1 with state_K == state_l; violation: exists j: no goal_j on loop; forall k: some not hold_k on loop
    goals = [export(g, aut.bdd, cache, bvf) for g in aut.win['[]<>']]
    holds = [export(h, aut.bdd, cache, bvf) for h in aut.win['<>[]']]
    lassos = []
    for l in range(K):
        eq = z3.And([z3.Bool(f'{b}@{K}') == z3.Bool(f'{b}@{l}') for b in cur])
        nog = z3.Or([z3.And([z3.Not(at(g, i, i+1)) for i in range(l, K)]) for g in goals])
        nh_ = z3.And([z3.Or([z3.Not(at(h, i, i+1)) for i in range(l, K)]) for h in holds])
        lassos.append(z3.And(eq, nog, nh_))
    sol.add(z3.Or(lassos))
    r = sol.check()
    print(' lasso K=%d' % K, r, f'{time.time()-t0:.1f}s', flush=True)
