"""C07 — Context operations on BDDs equal the same operations on sets of assignments.

For seeded predicates U over mixed Boolean / unsigned / signed / all-negative
identifiers, each operation of `fol.Context` is run for real, its result is
exported, and z3 decides for *all* assignments of the remaining identifiers
that it equals the same operation applied to the exported operand:

  let (values)     R == U[x := v]           one real call per value v of the bit range
  let (rename)     R == U[x := x2]          (also onto an identifier that occurs in U)
  replace_with_bdd R == U[b := G]
  exist / forall   R == \\/ / /\\ over every value of the quantified identifiers
  support          x in support  <=>  exists sigma, bit of x: U flips   (one query per identifier)
  pick_iter        soundness by evaluation, completeness by the solver
                   (U /\\ sigma differs from every yielded d  is unsat), no duplicates,
                   keys == support | care_vars, count == len, pick in D
  assign_from      export == cube of the assignment
  apply / copy     export == operator on exports / same function in the other context
"""
import itertools
import random
import time

from vlib import core

PID = 'C07'
FILES = ['omega/symbolic/fol.py', 'omega/symbolic/enumeration.py', 'omega/logic/bitvector.py']
FUNCS = ['fol.Context.let', 'fol.Context.replace', 'fol.Context.replace_with_bdd', 'fol.Context.exist',
         'fol.Context.forall', 'fol.Context.count', 'fol.Context.pick', 'fol.Context.pick_iter',
         'fol.Context.assign_from', 'fol.Context.support', 'fol.Context.apply', 'fol.Context.copy',
         'fol._refine_assignment', 'fol._int_to_bit_assignment', 'fol._refine_renaming', 'fol._refine_vars',
         'enumeration._bitfields_to_int_iter', 'enumeration._enumerate_int', 'enumeration._take_product_iter',
         'bitvector.map_bits_to_integers', 'bitvector.bit_table']
SOLVER_MS = 120000

DECLS = [
    dict(a='bool', x=(0, 5), y=(-3, 2), z=(-3, -1)),
    dict(a='bool', b='bool', x=(0, 1), y=(-8, 7)),
    dict(x=(2, 13), y=(-1, 0), z=(-8, -1)),
    dict(a='bool', x=(5, 5), y=(-1, -1), z=(0, 6)),
    dict(a='bool', k=(0, 0), y=(0, 2), z=(-2, -2)),
    # same width, different encodings / hints: renamings between them (cross-domain obligation)
    dict(x=(0, 3), y=(-4, -1), z=(0, 2)),
]


def _twin(decl):
    """Each identifier gets a same-typed twin (rename target)."""
    d = dict(decl)
    for k, v in decl.items():
        d[k + '2'] = v
    return d


def gen_pred(rnd, decl, depth):
    ints = [k for k, v in decl.items() if v != 'bool']
    bools = [k for k, v in decl.items() if v == 'bool']

    def ga(d):
        r = rnd.random()
        if d == 0 or r < 0.4:
            if rnd.random() < 0.7:
                return ('var', rnd.choice(ints), False)
            return ('num', rnd.randint(-6, 6))
        return ('arith', rnd.choice(['+', '-', '+', '-', '*']), ga(d - 1), ga(d - 1))

    def gb(d):
        r = rnd.random()
        if d == 0:
            if bools and r < 0.4:
                return ('bvar', rnd.choice(bools), False)
            return ('cmp', rnd.choice(['=', '#', '<', '<=', '>', '>=']), ('var', rnd.choice(ints), False),
                    ('num', rnd.randint(-5, 6)))
        if r < 0.45:
            return ('cmp', rnd.choice(['=', '#', '<', '<=', '>', '>=']), ga(d - 1), ga(d - 1))
        if r < 0.55:
            return ('not', gb(d - 1))
        if r < 0.9:
            return ('bin', rnd.choice(['and', 'or', 'implies', 'equiv', 'xor']), gb(d - 1), gb(d - 1))
        v = rnd.choice(ints)
        lo = rnd.randint(-5, 4)
        return ('in', ('var', v, False), lo, lo + rnd.randint(0, 5))
    return gb(depth)


def _vals(d):
    from vlib import link
    if d['type'] == 'bool':
        return [False, True]
    lo, hi = link.rep_range(d)
    return list(range(lo, hi + 1))


def check_predicates(decl_idx, seeds, backend_note=''):
    import z3
    import omega.symbolic.fol as fol
    from vlib import bdd2smt, link, sem
    decl = DECLS[decl_idx]
    full = _twin(decl)
    out = []
    for seed in seeds:
        rnd = random.Random(seed * 7919 + decl_idx)
        ctx = fol.Context()
        ctx.declare(**full)
        t = ctx.vars
        tree = gen_pred(rnd, decl, rnd.choice([1, 2, 2]))
        s = sem.to_str(tree)
        u = ctx.add_expr(s)
        exp = bdd2smt.Exporter(ctx.bdd)
        bits = exp.bits
        U = exp.export(u)
        names = list(decl)
        pid = f'decl{decl_idx}#{seed}'
        sample0 = dict(decl=decl, predicate=s)
        nontrivial = u != ctx.true and u != ctx.false

        def bsub(term, name, value, target=None):
            """substitute bits of `name` by value bits (or by the bits of identifier `target`)."""
            d = t[name]
            bn = link.bits_of(name, d)
            if target is not None:
                tb = link.bits_of(target, t[target])
                return z3.substitute(term, *[(bits(a), bits(b)) for a, b in zip(bn, tb)])
            vb = link.value_to_bits(name, d, value)
            return z3.substitute(term, *[(bits(b), z3.BoolVal(vb[b])) for b in bn])

        def decide(name, formula, op, detail_fn, cexinfo):
            sol = z3.Solver()
            sol.set('timeout', SOLVER_MS)
            sol.add(formula)
            t1 = time.time()
            r = str(sol.check())
            dt = time.time() - t1
            full_name = f'{op} {pid} {name}'
            sample = dict(sample0, op=op, case=name)
            if r == 'unsat':
                out.append(core.res(full_name, 'holds', queries={r: 1}, solver_s=dt, sample=sample,
                                    nontrivial=nontrivial, functions=FUNCS))
                return
            if r != 'sat':
                out.append(core.res(full_name, 'inconclusive', queries={r: 1}, solver_s=dt, sample=sample,
                                    detail=f'solver answered {r}'))
                return
            m = sol.model()
            sigma = {}
            for nm in full:
                a = {b: z3.is_true(m.eval(bits(b), model_completion=True)) for b in link.bits_of(nm, t[nm])}
                sigma[nm] = link.bits_to_value(nm, t[nm], a)
            cex = dict(decl_idx=decl_idx, seed=seed, op=op, sigma=sigma, **cexinfo)
            ok, why = replay(dict(cex=cex))
            if ok:
                out.append(core.res(full_name, 'violation', queries={r: 1}, solver_s=dt, sample=sample, nontrivial=True,
                                    functions=FUNCS, signature=f'{op}', detail=f'{s!r} with {decl}: {why}', cex=cex))
            else:
                out.append(core.res(full_name, 'inconclusive', queries={r: 1}, solver_s=dt, sample=sample,
                                    detail=f'counterexample did not reproduce: {why}'))

        sup_real = ctx.support(u)
        # ---- let with values: every value of every identifier; plus a pair
        for x in names:
            for v in _vals(t[x]):
                R = exp.export(ctx.let({x: v}, u))
                decide(f'{x}:={v}', R != bsub(U, x, v), 'let-value', None, dict(defs={x: v}))
        if len(names) >= 2:
            x, y = rnd.sample(names, 2)
            vx, vy = rnd.choice(_vals(t[x])), rnd.choice(_vals(t[y]))
            R = exp.export(ctx.let({x: vx, y: vy}, u))
            decide(f'{x}:={vx},{y}:={vy}', R != bsub(bsub(U, x, vx), y, vy), 'let-value', None, dict(defs={x: vx, y: vy}))
        # ---- rename to the twin, and onto an identifier of the same type that occurs in U
        for x in names:
            R = exp.export(ctx.let({x: x + '2'}, u))
            decide(f'{x}->{x}2', R != bsub(U, x, None, x + '2'), 'let-rename', None, dict(defs={x: x + '2'}))
        x = rnd.choice(names)
        R = exp.export(ctx.let({x + '2': x}, ctx.let({x: x + '2'}, u)))
        decide(f'{x}->{x}2->{x}', R != U, 'let-rename', None, dict(defs={x: x + '2'}, back=True))
        # ---- renaming onto an identifier with a *different* declaration: either refused, or value-preserving:
        #      result(a)  <=>  the value of the target in a is representable for the source and u holds with it
        ints_ = [n for n in names if decl[n] != 'bool']
        cross = [(x_, y_) for x_ in ints_ for y_ in ints_ if x_ != y_ and decl[x_] != decl[y_]]
        for x_, y_ in (rnd.sample(cross, min(3, len(cross))) if decl_idx < 4 else cross):
            try:
                r_ = ctx.let({x_: y_}, u)
            except Exception:  # noqa: refusal is the documented outcome for different declarations
                out.append(core.res(f'let-rename-cross {pid} {x_}->{y_}', 'holds', queries={'refused': 1}, sample=dict(sample0, op='let-rename-cross', case=f'{x_}->{y_}'),
                                    nontrivial=False, functions=FUNCS))
                continue
            tv = link.bv_of(y_, t[y_], bits)
            want = z3.Or([z3.And(tv == z3.BitVecVal(v, link.W), bsub(U, x_, v)) for v in _vals(t[x_])])
            decide(f'{x_}->{y_} (declared {decl[x_]} -> {decl[y_]}) accepted', exp.export(r_) != want, 'let-rename-cross', None,
                   dict(defs={x_: y_}))
        # ---- simultaneous renamings: swap of an identifier with its twin, in both dict orders, on a predicate
        #      that depends on both (a sequential implementation maps both onto one identifier)
        for x in rnd.sample(names, min(2, len(names))):
            vt = gen_pred(rnd, decl, 1)
            comb = 'and' if rnd.random() < 0.5 else 'xor'
            w = ctx.apply(comb, u, ctx.let({x: x + '2'}, ctx.add_expr(sem.to_str(vt))))
            Wt = exp.export(w)
            bx, bx2 = link.bits_of(x, t[x]), link.bits_of(x + '2', t[x + '2'])
            swapped = z3.substitute(Wt, *([(bits(a), bits(b)) for a, b in zip(bx, bx2)] +
                                          [(bits(b), bits(a)) for a, b in zip(bx, bx2)]))
            for order in ((x, x + '2'), (x + '2', x)):
                defs = {order[0]: order[1], order[1]: order[0]}
                R = exp.export(ctx.let(dict(defs), w))
                decide(f'swap {order[0]}<->{order[1]} on a predicate over both', R != swapped, 'let-swap', None,
                       dict(defs=defs, x=x, comb=comb, second_tree=vt))
        # ---- replace_with_bdd
        bools = [k for k in names if decl[k] == 'bool']
        if bools:
            b = rnd.choice(bools)
            gtree = gen_pred(rnd, {k: v for k, v in decl.items() if k != b}, 1)
            g = ctx.add_expr(sem.to_str(gtree))
            R = exp.export(ctx.replace_with_bdd(u, {b: g}))
            decide(f'{b}:={sem.to_str(gtree)}', R != z3.substitute(U, (bits(b), exp.export(g))),
                   'replace_with_bdd', None, dict(var=b, g=sem.to_str(gtree)))
        if len(bools) >= 2:
            b1, b2 = bools[0], bools[1]
            # the replacement of one key depends on the other key: a sequential substitution gives another result
            g1t = ('bin', rnd.choice(['and', 'or', 'xor']), ('bvar', b2, False), gen_pred(rnd, {k: v for k, v in decl.items() if k not in (b1, b2)}, 1))
            g2t = gen_pred(rnd, {k: v for k, v in decl.items() if k not in (b1, b2)}, 1)
            g1 = ctx.add_expr(sem.to_str(g1t))
            g2 = ctx.add_expr(sem.to_str(g2t))
            w = ctx.apply('xor', u, ctx.add_expr(f'{b1} /\\ ~ {b2}'))
            Wt = exp.export(w)
            want = z3.substitute(Wt, (bits(b1), exp.export(g1)), (bits(b2), exp.export(g2)))
            for order in ((b1, b2), (b2, b1)):
                subs = {k: (g1 if k == b1 else g2) for k in order}
                R = exp.export(ctx.replace_with_bdd(w, subs))
                decide(f'{order[0]},{order[1]} simultaneously', R != want, 'replace_with_bdd', None,
                       dict(two_keys=list(order), b1=b1, b2=b2, g1=g1t, g2=g2t))
        # ---- exist / forall over every subset of the identifiers (size <= 2)
        subsets = [c for k in (1, 2) for c in itertools.combinations(names, k)]
        for qs in subsets:
            combos = list(itertools.product(*[_vals(t[q]) for q in qs]))
            inst = []
            for vs in combos:
                e = U
                for q, v in zip(qs, vs):
                    e = bsub(e, q, v)
                inst.append(e)
            RE = exp.export(ctx.exist(set(qs), u))
            RA = exp.export(ctx.forall(set(qs), u))
            decide(f'\\E {",".join(qs)}', RE != z3.Or(inst), 'exist', None, dict(qvars=list(qs)))
            decide(f'\\A {",".join(qs)}', RA != z3.And(inst), 'forall', None, dict(qvars=list(qs)))
        # ---- support: one dependence query per declared identifier
        for x in full:
            dep = []
            for bname in link.bits_of(x, t[x]):
                bb = bits(bname)
                dep.append(z3.substitute(U, (bb, z3.BoolVal(True))) != z3.substitute(U, (bb, z3.BoolVal(False))))
            sol = z3.Solver()
            sol.set('timeout', SOLVER_MS)
            sol.add(z3.Or(dep))
            t1 = time.time()
            r = str(sol.check())
            dt = time.time() - t1
            nm = f'support {pid} {x}'
            sample = dict(sample0, op='support', identifier=x, reported=x in sup_real)
            if r not in ('sat', 'unsat'):
                out.append(core.res(nm, 'inconclusive', queries={r: 1}, solver_s=dt, sample=sample, detail=r))
            elif (r == 'sat') == (x in sup_real):
                out.append(core.res(nm, 'holds', queries={r: 1}, solver_s=dt, sample=sample, nontrivial=nontrivial, functions=FUNCS))
            else:
                cex = dict(decl_idx=decl_idx, seed=seed, op='support', ident=x)
                ok, why = replay(dict(cex=cex))
                out.append(core.res(nm, 'violation' if ok else 'inconclusive', queries={r: 1}, solver_s=dt,
                                    sample=sample, nontrivial=True, functions=FUNCS, signature='support',
                                    detail=f'{s!r} with {decl}: {why}', cex=cex))
        # ---- pick_iter / count / pick with care-variable choices
        sup = sorted(sup_real)
        others = [n for n in names if n not in sup_real]
        care_choices = [None, list(sup)]
        if others:
            care_choices.append(sup + [others[0]])
            care_choices.append(list(names))
        if len(sup) > 1:
            care_choices.append(sup[:1])          # strict subset of the support
        care_choices.append([])
        for care in care_choices:
            label = 'None' if care is None else ','.join(care) or '-'
            nm = f'pick_iter {pid} care={label}'
            sample = dict(sample0, op='pick_iter', care_vars=care)
            try:
                D = list(ctx.pick_iter(u, care_vars=care))
            except Exception as e:  # noqa
                cex = dict(decl_idx=decl_idx, seed=seed, op='pick_iter', care=care)
                out.append(core.res(nm, 'violation', sample=sample, nontrivial=True, functions=FUNCS,
                                    signature=f'pick_iter:{type(e).__name__}',
                                    detail=f'{s!r} with {decl}, care_vars={care}: raised {type(e).__name__}: {e}', cex=cex))
                continue
            keys = set(sup_real) | set(care or [])
            complete = care is None or set(care) >= set(sup_real)
            problems = []
            # exactly once: no two yielded (possibly partial) assignments are compatible
            for i in range(len(D)):
                for j in range(i + 1, len(D)):
                    if all(D[j].get(k, v) == v for k, v in D[i].items()):
                        problems.append(f'{D[i]} and {D[j]} overlap')
                        break
                else:
                    continue
                break
            for d in D:
                if complete and set(d) != keys:
                    problems.append(f'keys {sorted(d)} != {sorted(keys)}')
                    continue
                if not (set(care or []) <= set(d) <= keys):
                    problems.append(f'keys {sorted(d)} not between care_vars and support | care_vars')
                    continue
                # soundness: U holds at d for every value of the other identifiers
                e = U
                for kx, v in d.items():
                    lo_hi = _vals(t[kx])
                    if v not in lo_hi:
                        problems.append(f'value {kx}={v} not representable')
                        break
                    e = bsub(e, kx, v)
                else:
                    e = z3.simplify(e)
                    if not z3.is_true(e):
                        so = z3.Solver()
                        so.add(z3.Not(e))
                        if str(so.check()) != 'unsat':
                            problems.append(f'{d} does not satisfy the predicate')
            # completeness by the solver
            diffs = []
            ok_keys = [d for d in D if set(d) <= keys]
            for d in ok_keys:
                eq = []
                for kx, v in d.items():
                    if v not in _vals(t[kx]):
                        continue
                    vb = link.value_to_bits(kx, t[kx], v)
                    eq += [bits(b) == z3.BoolVal(val) for b, val in vb.items()]
                diffs.append(z3.Not(z3.And(eq)) if eq else z3.BoolVal(False))
            sol = z3.Solver()
            sol.set('timeout', SOLVER_MS)
            sol.add(U, *diffs)
            t1 = time.time()
            r = str(sol.check())
            dt = time.time() - t1
            if r == 'sat':
                m = sol.model()
                miss = {}
                for kx in keys:
                    a = {b: z3.is_true(m.eval(bits(b), model_completion=True)) for b in link.bits_of(kx, t[kx])}
                    miss[kx] = link.bits_to_value(kx, t[kx], a)
                problems.append(f'satisfying assignment {miss} is not yielded')
            elif r != 'unsat':
                out.append(core.res(nm, 'inconclusive', queries={r: 1}, solver_s=dt, sample=sample, detail=r))
                continue
            # count / pick
            if care is None or set(care) >= set(sup_real):
                try:
                    c = ctx.count(u, care_vars=care)
                    if c != len(D):
                        problems.append(f'count={c} but {len(D)} assignments yielded')
                except Exception as e:  # noqa
                    problems.append(f'count raised {type(e).__name__}: {e}')
            p = ctx.pick(u, care_vars=care)
            if (p is None) != (len(D) == 0) or (p is not None and p not in D):
                problems.append(f'pick returned {p}')
            if problems:
                cex = dict(decl_idx=decl_idx, seed=seed, op='pick_iter', care=care)
                out.append(core.res(nm, 'violation', queries={r: 1}, solver_s=dt, sample=sample, nontrivial=True,
                                    functions=FUNCS, signature='pick_iter',
                                    detail=f'{s!r} with {decl}, care_vars={care}: {problems[0]} ({len(problems)} problem(s))',
                                    cex=cex))
            else:
                out.append(core.res(nm, 'holds', queries={r: 1}, solver_s=dt, sample=dict(sample, yielded=len(D)),
                                    nontrivial=len(D) > 0, functions=FUNCS))
        # ---- assign_from
        d = {x: rnd.choice(_vals(t[x])) for x in rnd.sample(names, rnd.randint(1, len(names)))}
        cube = []
        for kx, v in d.items():
            vb = link.value_to_bits(kx, t[kx], v)
            cube += [bits(b) == z3.BoolVal(val) for b, val in vb.items()]
        decide(f'{d}', exp.export(ctx.assign_from(d)) != z3.And(cube), 'assign_from', None, dict(assignment=d))
        # ---- apply, copy
        vtree = gen_pred(rnd, decl, 1)
        v = ctx.add_expr(sem.to_str(vtree))
        V = exp.export(v)
        for op, f in (('and', z3.And(U, V)), ('or', z3.Or(U, V)), ('xor', z3.Xor(U, V)),
                      ('=>', z3.Implies(U, V)), ('<=>', U == V), ('not', z3.Not(U))):
            R = exp.export(ctx.apply(op, u, v) if op != 'not' else ctx.apply('not', u))
            decide(f'{op} with {sem.to_str(vtree)}', R != f, 'apply', None, dict(bop=op, v=sem.to_str(vtree)))
        other = fol.Context()
        other.declare(**dict(reversed(list(full.items()))))     # different declaration order
        w = ctx.copy(u, other)
        decide('copy to a context declared in reverse order', bdd2smt.Exporter(other.bdd, bits).export(w) != U,
               'copy', None, dict())
    return out


def tuple_tree(x):
    if isinstance(x, (list, tuple)):
        return tuple(tuple_tree(y) for y in x)
    return x


def replay(payload):
    """Evaluate the operation on the real code at one full assignment sigma with
    `Context.let` on complete assignments, against `sem.eval_py` of the predicate."""
    import omega.symbolic.fol as fol
    from vlib import sem
    c = payload['cex']
    decl = DECLS[c['decl_idx']]
    full = _twin(decl)
    rnd = random.Random(c['seed'] * 7919 + c['decl_idx'])
    ctx = fol.Context()
    ctx.declare(**full)
    tree = gen_pred(rnd, decl, rnd.choice([1, 2, 2]))
    u = ctx.add_expr(sem.to_str(tree))

    def truth(w, sigma):
        sup = ctx.support(w)
        d = {k: v for k, v in sigma.items() if k in sup}
        r = ctx.let(d, w) if d else w
        return r == ctx.true

    def ev(sigma):
        return bool(sem.eval_py(tree, ctx.vars, sigma))
    op = c['op']
    sigma = c.get('sigma')
    if op == 'let-value':
        r = ctx.let(c['defs'], u)
        got = truth(r, sigma)
        want = ev(dict(sigma, **c['defs']))
        return got != want, f'let({c["defs"]}) at {sigma}: {got}, set semantics: {want}'
    if op == 'let-rename':
        r = ctx.let(c['defs'], u)
        if c.get('back'):
            r = ctx.let({v: k for k, v in c['defs'].items()}, r)
            want = ev(sigma)
        else:
            want = ev(dict(sigma, **{k: sigma[v] for k, v in c['defs'].items()}))
        got = truth(r, sigma)
        return got != want, f'let({c["defs"]}) at {sigma}: {got}, set semantics: {want}'
    if op == 'let-rename-cross':
        (x_, y_), = c['defs'].items()
        try:
            r = ctx.let(c['defs'], u)
        except Exception:  # noqa
            return False, 'renaming refused'
        got = truth(r, sigma)
        want = sigma[y_] in _vals(ctx.vars[x_]) and ev(dict(sigma, **{x_: sigma[y_]}))
        return got != want, (f'let({c["defs"]}) between different declarations was accepted; at {sigma} the result is {got}, '
                             f'renaming the value gives {want}')
    if op == 'replace_with_bdd' and c.get('two_keys'):
        b1, b2 = c['b1'], c['b2']
        g1t, g2t = tuple_tree(c['g1']), tuple_tree(c['g2'])
        g1, g2 = ctx.add_expr(sem.to_str(g1t)), ctx.add_expr(sem.to_str(g2t))
        w = ctx.apply('xor', u, ctx.add_expr(f'{b1} /\\ ~ {b2}'))
        r = ctx.replace_with_bdd(w, {k: (g1 if k == b1 else g2) for k in c['two_keys']})
        v1 = bool(sem.eval_py(g1t, ctx.vars, sigma))
        v2 = bool(sem.eval_py(g2t, ctx.vars, sigma))
        s2 = dict(sigma, **{b1: v1, b2: v2})
        want = ev(s2) != (s2[b1] and not s2[b2])
        got = truth(r, sigma)
        return got != want, f'replace_with_bdd({c["two_keys"]}) at {sigma}: {got}, simultaneous substitution gives {want}'
    if op == 'let-swap':
        x, x2 = c['x'], c['x'] + '2'
        vt = tuple_tree(c['second_tree'])
        w = ctx.apply(c['comb'], u, ctx.let({x: x2}, ctx.add_expr(sem.to_str(vt))))
        r = ctx.let(dict(c['defs']), w)

        def wval(sg):
            a = ev(sg)
            b = bool(sem.eval_py(vt, ctx.vars, dict(sg, **{x: sg[x2]})))
            return (a and b) if c['comb'] == 'and' else (a != b)
        sw = dict(sigma)
        sw[x], sw[x2] = sigma[x2], sigma[x]
        got, want = truth(r, sigma), wval(sw)
        return got != want, f'let({c["defs"]}) at {sigma}: {got}, simultaneous renaming gives {want}'
    if op in ('exist', 'forall'):
        qs = c['qvars']
        r = ctx.exist(set(qs), u) if op == 'exist' else ctx.forall(set(qs), u)
        combos = itertools.product(*[_vals(ctx.vars[q]) for q in qs])
        vals = [ev(dict(sigma, **dict(zip(qs, vs)))) for vs in combos]
        want = any(vals) if op == 'exist' else all(vals)
        got = truth(r, sigma)
        return got != want, f'{op} {qs} at {sigma}: {got}, set semantics: {want}'
    if op == 'support':
        x = c['ident']
        reported = x in ctx.support(u)
        names = list(decl)
        dep = False
        if x in decl:
            rest = [n for n in names if n != x]
            for vs in itertools.product(*[_vals(ctx.vars[n]) for n in rest]):
                base = dict(zip(rest, vs))
                outs = {ev(dict(base, **{x: v})) for v in _vals(ctx.vars[x])}
                if len(outs) > 1:
                    dep = True
                    break
        return reported != dep, f'support reports {x}: {reported}, predicate depends on it: {dep}'
    if op == 'pick_iter':
        care = c['care']
        try:
            D = list(ctx.pick_iter(u, care_vars=care))
        except Exception as e:  # noqa
            return True, f'pick_iter raised {type(e).__name__}: {e}'
        keys = sorted(set(ctx.support(u)) | set(care or []))
        rest = [n for n in decl if n not in keys]
        # every full assignment over `keys` that satisfies U must be covered by exactly one yielded
        # (possibly partial) assignment, and nothing else may be covered
        bad = None
        for vs in itertools.product(*[_vals(ctx.vars[k]) for k in keys]):
            full_d = dict(zip(keys, vs))
            sat = ev(dict(full_d, **{n: _vals(ctx.vars[n])[0] for n in rest}))
            cover = [d for d in D if all(full_d.get(k) == v for k, v in d.items())]
            if len(cover) != (1 if sat else 0):
                bad = f'{full_d} (satisfying: {sat}) is covered by {len(cover)} yielded assignment(s)'
                break
        if bad is None and (care is None or set(care) >= set(ctx.support(u))):
            if any(sorted(d) != keys for d in D):
                bad = 'an assignment lacks an identifier of support | care_vars'
        return bad is not None, f'pick_iter(care_vars={care}): {bad}'
    if op == 'assign_from':
        r = ctx.assign_from(c['assignment'])
        got = truth(r, sigma)
        want = all(sigma[k] == v for k, v in c['assignment'].items())
        return got != want, f'assign_from({c["assignment"]}) at {sigma}: {got}, expected {want}'
    return False, 'no concrete replay for this operation; re-run the check'


def run(tier, seed, t0, only=None):
    nseeds = 20 if tier == 'quick' else 60
    tasks = []
    for be in ('cudd', 'autoref'):
        for di in range(len(DECLS)):
            seeds = [seed * 1000 + i for i in range(nseeds if be == 'cudd' else max(2, nseeds // 4))]
            for chunk in [seeds[i:i + 2] for i in range(0, len(seeds), 2)]:
                tasks.append(dict(mod='vlib.props.c07', fn='check_predicates', kw=dict(decl_idx=di, seeds=chunk),
                                  backend=be, timeout=1800, name=f'{be}:decl{di}:seeds{chunk[0]}..'))
    ch_timeout = 750 if tier == 'quick' else 1500  # a bound, not a cost (5-110 s)
    for f in ('prop_enumerate_int', 'prop_twos_complement', 'prop_int_to_bit_assignment', 'prop_bitfields_to_int'):
        tasks.insert(0, dict(mod='vlib.chrun', fn='ch_task',
                             kw=dict(module='vlib.ch.h07', func=f, timeout=ch_timeout, functions=FUNCS),
                             timeout=ch_timeout * 4 + 300, name=f'crosshair:{f}'))
    if only:
        tasks = [t for t in tasks if only in t['name']]
    results = core.run_tasks(tasks)
    return core.finish(
        PID, tier, seed, 'model_checking', results, t0, files=FILES,
        bounds=dict(declarations=DECLS, predicates_per_declaration=nseeds, predicate_depth='<= 2',
                    widths='1..4 bits, Boolean / unsigned / signed / all-negative / singleton hints',
                    care_vars='None, support, support+1, all, strict subset, empty', backends=['cudd', 'autoref']),
        rule='one obligation per (predicate, operation instance): the exported result differs from the set-level '
             'operation on the exported operand for some assignment of the remaining identifiers (z3); values '
             'substituted by let are enumerated over the whole bit range; pick_iter completeness is a solver query. '
             'Non-trivial = the predicate is neither TRUE nor FALSE / something was yielded',
        assumptions=['z3', 'dd node accessors', 'link (two\'s complement, omitted constant sign bit)',
                     'CrossHair 0.0.110 "Confirmed over all paths" for the bit kernels (partial bit lists of length <= 4, '
                     'values in [-70, 70]); each harness has a refuted reachability twin',
                     'the operand BDD itself is C06\'s subject'],
        outside=['identifiers wider than 4 bits', 'values outside the bit range passed to let/assign_from (sign-definite '
                 'identifiers refuse them, signed ones truncate silently)',
                 'care_vars that are a strict subset of the support: yielded assignments are read as disjoint cubes'])
