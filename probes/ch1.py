from typing import List, Optional, Tuple
import omega.logic.bitvector as bv
import omega.symbolic._type_hints as tyh
import omega.symbolic.enumeration as enum
import omega.symbolic.codegen as cg
import omega.steps as steps

def dom_to_width_ok(lo: int, hi: int, v: int) -> bool:
    """
    pre: -17 <= lo <= v <= hi <= 17
    post: _
    """
    signed, width = bv.dom_to_width((lo, hi))
    a, b = tyh._bitfield_limits(dict(width=width, signed=signed, dom=(lo, hi)))
    return a <= v <= b

def enumerate_int_ok(bits: List[Optional[bool]]) -> bool:
    """
    pre: 2 <= len(bits) <= 4
    post: _
    """
    bitvalues = [None if b is None else ('1' if b else '0') for b in bits]
    vals = list(enum._enumerate_int(bitvalues))
    n = len(bits)
    exp = []
    for v in range(-2**(n-1), 2**(n-1)):
        ok = True
        for i, b in enumerate(bits):
            if b is None: continue
            bit = (v >> i) & 1
            if bit != int(b): ok = False
        if ok: exp.append(v)
    return sorted(vals) == exp

def int_to_bits_ok(x: int, width: int) -> bool:
    """
    pre: 1 <= width <= 5
    pre: -2**width <= x < 2**width
    post: _
    """
    bits = cg.int_to_bits(x, width)
    return all(bits[i] == bool((x >> i) & 1) for i in range(width))

def prefix_roundtrip(k: str, prefix: str) -> bool:
    """
    pre: len(k) <= 4 and len(prefix) <= 3 and len(prefix) >= 1
    post: _
    """
    d = steps.add_prefix({k: 1}, prefix)
    e = steps.omit_prefix(d, prefix)
    return e == {k: 1}
