"""Rabin transducer family: one-step obligations."""
import time, itertools, sys, z3
from p3 import build
from p1 import export
import omega.games.gr1 as gr1
ng, nh, ef = int(sys.argv[1]), int(sys.argv[2]), sys.argv[3] == '1'
modes = list(itertools.product([True, False], repeat=2))
if len(sys.argv) > 4:
    modes = [modes[int(sys.argv[4])]]
for moore, plus_one in modes:
    aut, allp = build(moore, plus_one, ng, nh, ef)
    t0 = time.time()
    zk, yki, xkijr = gr1.solve_rabin_game(aut)
    z = zk[-1]
    aut.init['env'] = z
    gr1.make_rabin_transducer(zk, yki, xkijr, aut)
    A = aut.action['impl']
    print('mode', moore, plus_one, 'impl nodes', len(A), f'{time.time()-t0:.1f}s', 'hold', aut.vars['_hold']['dom'], aut.vars['_hold']['bitnames'], 'goal', aut.vars['_goal']['dom'], flush=True)
    bits = {}; bvf = lambda n: bits.setdefault(n, z3.Bool(n)); cache = {}
    ex = lambda u: export(u, aut.bdd, cache, bvf)
    eA, eZ, eE, eS = ex(A), ex(z), ex(aut.action['env']), ex(aut.action['sys'])
    hb = aut.vars['_hold']['bitnames']; gb = aut.vars['_goal']['bitnames']
    def val(bn, primed):
        return z3.Sum([z3.If(bvf(b + ("'" if primed else '')), 2**i, 0) for i, b in enumerate(bn)] + [z3.IntVal(0)])
    rng = lambda p: z3.And(val(hb, p) <= nh, val(gb, p) <= ng - 1)
    prime_state = lambda e: z3.substitute(e, *[(bvf(b), bvf(b + "'")) for b in ['x', 'y']])
    inv = z3.And(eZ, rng(False))
    sol = z3.Solver()
    def q(name, *fs):
        sol.push(); sol.add(*fs); t0 = time.time(); r = sol.check()
        print('  ', name, r, f'{time.time()-t0:.1f}s', flush=True)
        if str(r) == 'sat':
            m = sol.model()
            print('     state', {b: m.eval(bvf(b), model_completion=True) for b in ['x','y'] + hb + gb},
                  'true tables', sorted(str(d) for d in m.decls() if z3.is_true(m[d]) and str(d)[0] in 'esgh' and str(d) not in ('x','y')))
        sol.pop()
    hyp = z3.And(inv, eA) if plus_one else z3.And(inv, eA, eE)
    q('safety', hyp, z3.Not(eS))
    q('closure', inv, eA, eE, z3.Not(z3.And(prime_state(eZ), rng(True))))
    xq = [bvf("x'")]; yq = [bvf("y'")] + [bvf(b + "'") for b in hb + gb]
    nb = z3.Exists(yq, z3.ForAll(xq, eA)) if moore else z3.ForAll(xq, z3.Exists(yq, eA))
    q('nonblock', inv, z3.Not(nb))
    # weaker: blocking only matters when spec still obliges sys: exists x' with env_action satisfiable?
    if moore:
        envcan = z3.Exists(xq + [bvf("y'")], eE)
    else:
        envcan = z3.Exists(xq + [bvf("y'")], eE)
    q('nonblock_when_env_can_move', inv, envcan, z3.Not(nb))
