"""Task scheduling, verdict bookkeeping, known findings, evidence."""
import hashlib
import importlib
import json
import multiprocessing as mp
import os
import subprocess
import sys
import time
import traceback

ROOT = os.path.dirname(os.path.dirname(os.path.abspath(__file__)))
REPO = os.environ.get('OMEGA_REPO', '/repo')
NPROC = int(os.environ.get('VERIF_NPROC', '0')) or (os.cpu_count() or 4)

EXIT_OK, EXIT_VIOLATION, EXIT_INCONCLUSIVE = 0, 1, 2


def res(name, status, *, queries=None, solver_s=0.0, detail='', cex=None,
        signature='', nontrivial=False, sample=None, functions=(), extra=None):
    """One obligation's outcome. status: holds | violation | inconclusive."""
    assert status in ('holds', 'violation', 'inconclusive'), status
    return dict(name=name, status=status, queries=queries or {}, solver_s=solver_s,
                detail=detail, cex=cex, signature=signature,
                nontrivial=bool(nontrivial), sample=sample,
                functions=list(functions), extra=extra or {})


def force_backend(backend):
    """'autoref' hides dd.cudd before omega is imported, so that fol.py,
    symbolic.py and functions.py take their ImportError fall-back."""
    if backend == 'autoref':
        assert 'omega' not in sys.modules and 'dd.cudd' not in sys.modules
        sys.modules['dd.cudd'] = None
    os.environ['VERIF_BACKEND'] = backend


def _child(conn, backend, modname, funcname, kwargs):
    try:
        force_backend(backend)
        import logging
        logging.disable(logging.CRITICAL)
        mod = importlib.import_module(modname)
        out = getattr(mod, funcname)(**kwargs)
        conn.send(('ok', out))
    except BaseException as e:  # noqa
        conn.send(('err', ''.join(traceback.format_exception(type(e), e, e.__traceback__))[-4000:]))
    finally:
        conn.close()


def run_tasks(tasks, nproc=None, progress=True):
    """tasks: list of dict(mod, fn, kw, backend='cudd', timeout=seconds, name).
    Each task runs in a fresh process (spawn) and returns a list of `res`.
    A task that exceeds its hard timeout or crashes yields one inconclusive
    result."""
    nproc = nproc or NPROC
    ctx = mp.get_context('spawn')
    pending = list(enumerate(tasks))
    pending.reverse()
    running = {}
    results = [None] * len(tasks)
    done = 0
    t00 = time.time()
    while pending or running:
        while pending and len(running) < nproc:
            i, t = pending.pop()
            pr, pw = ctx.Pipe(duplex=False)
            p = ctx.Process(target=_child, args=(
                pw, t.get('backend', 'cudd'), t['mod'], t['fn'], t.get('kw', {})))
            p.daemon = True
            p.start()
            pw.close()
            running[i] = (p, pr, time.time(), t)
        time.sleep(0.02)
        for i in list(running):
            p, pr, t0, t = running[i]
            finished = False
            if pr.poll():
                try:
                    kind, out = pr.recv()
                except EOFError:
                    kind, out = 'err', 'worker died without result'
                finished = True
            elif not p.is_alive():
                kind, out = 'err', f'worker exited with code {p.exitcode}'
                finished = True
            elif time.time() - t0 > t.get('timeout', 600):
                p.terminate()
                kind, out = 'err', f'hard timeout after {t.get("timeout", 600)} s'
                finished = True
            if not finished:
                continue
            p.join(timeout=5)
            if p.is_alive():
                p.kill()
            pr.close()
            del running[i]
            name = t.get('name', f'{t["fn"]}#{i}')
            if kind == 'ok':
                for r in out:
                    r.setdefault('task', name)
                    r.setdefault('backend', t.get('backend', 'cudd'))
                results[i] = out
            else:
                results[i] = [dict(res(name, 'inconclusive', detail=out),
                                   task=name, backend=t.get('backend', 'cudd'))]
            done += 1
            if progress:
                st = ','.join(sorted({r['status'] for r in results[i]}))
                print(f'[{time.time() - t00:7.1f}s] {done}/{len(tasks)} {name}: {st} '
                      f'({time.time() - t0:.1f}s)', file=sys.stderr, flush=True)
    return [r for rs in results for r in rs]


# ------------------------------------------------------------ known findings

def load_known():
    p = os.path.join(ROOT, 'known_findings.json')
    if not os.path.exists(p):
        return []
    with open(p) as f:
        return json.load(f)['findings']


def match_known(pid, signature, known):
    for k in known:
        if k['property'] == pid and k['kind'] == 'known' and signature == k['signature']:
            return k
    return None


# ------------------------------------------------------------ evidence

def blob_hashes(files):
    out = {}
    for f in files:
        p = os.path.join(REPO, f)
        try:
            with open(p, 'rb') as fh:
                data = fh.read()
            out[f] = hashlib.sha1(b'blob %d\0' % len(data) + data).hexdigest()
        except OSError:
            out[f] = None
    return out


def repo_head():
    try:
        return subprocess.check_output(['git', '-C', REPO, 'rev-parse', 'HEAD'],
                                       text=True, stderr=subprocess.DEVNULL).strip()
    except Exception:
        return None


def write_replay(pid, payload):
    d = os.path.join(ROOT, 'replays', pid)
    os.makedirs(d, exist_ok=True)
    s = json.dumps(payload, sort_keys=True, default=str)
    h = hashlib.sha1(s.encode()).hexdigest()[:12]
    p = os.path.join(d, h + '.json')
    with open(p, 'w') as f:
        f.write(s)
    return p


def finish(pid, tier, seed, level, results, t0, *, files, bounds, rule, assumptions,
           outside, extra_cov=None, replay_mod=None):
    """Aggregate results, print verdict lines, write evidence, return exit code."""
    known = load_known()
    viol, known_hits, inconc = [], {}, []
    q = {}
    solver_s = 0.0
    for r in results:
        for k, v in r['queries'].items():
            q[k] = q.get(k, 0) + v
        solver_s += r['solver_s']
        if r['status'] == 'violation':
            k = match_known(pid, r['signature'], known)
            if k is not None:
                known_hits.setdefault(r['signature'], (k, []))[1].append(r)
            else:
                viol.append(r)
        elif r['status'] == 'inconclusive':
            inconc.append(r)
    for sig, (k, rs) in sorted(known_hits.items()):
        print(f'KNOWN-FINDING: property={pid} {k["what"]} [{len(rs)} obligation(s), '
              f'e.g. {rs[0]["name"]}: {rs[0]["detail"][:160]}]')
    seen_sig = set()
    for r in viol:
        path = write_replay(pid, dict(property=pid, name=r['name'], signature=r['signature'],
                                      detail=r['detail'], cex=r['cex'], backend=r.get('backend')))
        if r['signature'] in seen_sig and len(seen_sig) > 20:
            continue
        seen_sig.add(r['signature'])
        print(f'VIOLATION property={pid} replay={path}')
        print(f'  {r["name"]}: {r["detail"][:400]}')
    for r in inconc[:20]:
        print(f'INCONCLUSIVE property={pid} {r["name"]}: {r["detail"][-600:]}', file=sys.stderr)
    samples = []
    distinct = set()
    for r in results:
        if r['nontrivial']:
            distinct.add(json.dumps(r['sample'], sort_keys=True, default=str) if r['sample'] is not None else r['name'])
        if r['sample'] is not None and len(samples) < 12:
            samples.append(dict(obligation=r['name'], case=r['sample'], status=r['status']))
    funcs = sorted({f for r in results for f in r['functions']})
    cov = dict(
        evaluations=len(results),
        distinct_nontrivial=len(distinct),
        rule=rule,
        samples=samples or [dict(obligation=r['name']) for r in results[:3]],
        obligations=len(results),
        discharged=sum(1 for r in results if r['status'] == 'holds'),
        known_finding_obligations=sum(len(v[1]) for v in known_hits.values()),
        inconclusive=len(inconc),
        solver_queries=q,
        solver_s=round(solver_s, 2),
        functions_encoded=funcs,
        source_blobs=blob_hashes(files),
        repo_head=repo_head(),
        bounds=bounds,
        outside_claim=outside,
        exhaustive=False,
    )
    if extra_cov:
        cov.update(extra_cov)
    ev = dict(property_id=pid, tier=tier, seed=seed, level=level, coverage=cov,
              assumptions=assumptions, wall_s=round(time.time() - t0, 2),
              violations=len(viol))
    os.makedirs(os.path.join(ROOT, 'evidence'), exist_ok=True)
    with open(os.path.join(ROOT, 'evidence', pid + '.json'), 'w') as f:
        json.dump(ev, f, indent=1, default=str)
    print(f'{pid} [{tier}]: {len(results)} obligations, {cov["discharged"]} discharged, '
          f'{cov["known_finding_obligations"]} known-finding, {len(viol)} violation(s), '
          f'{len(inconc)} inconclusive; queries {q}; solver {solver_s:.1f}s; '
          f'wall {time.time() - t0:.1f}s')
    if viol:
        return EXIT_VIOLATION
    if inconc:
        return EXIT_INCONCLUSIVE
    return EXIT_OK
