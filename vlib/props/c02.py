"""C02 — synthesized Streett(1) implementation realizes the specification in closed loop."""
from vlib import core, trans
from vlib.props import c01

PID = 'C02'
OBJ = 'streett'
FILES = ['omega/games/gr1.py', 'omega/symbolic/symbolic.py', 'omega/symbolic/fixpoint.py']
GROUPS = [['init', 'safety', 'range'], ['closure'], ['nonblock', 'moore-indep'], ['liveness'], ['pointwise']]


def shapes_for(tier):
    if tier == 'quick':
        return [('B11a', 'cudd'), ('S11', 'cudd'), ('S11h2', 'cudd'), ('B02', 'cudd'), ('T11b', 'cudd'), ('S11', 'autoref')]
    return [('B11a', 'cudd'), ('S11h2', 'cudd'), ('S11g2', 'cudd'), ('T11b', 'cudd'), ('B11b', 'cudd'), ('S11', 'cudd'),
            ('B02', 'cudd'), ('S11', 'autoref'),
            # dd.autoref's variable order makes the exported non-blocking formula of B02 ~60 times slower for z3
            # (12 s on cudd, 680-950 s and one `unknown` on autoref): that group runs on cudd only
            ('B02', 'autoref', ('nonblock',))]


def replay(payload):
    c = payload['cex']
    if c.get('kind') == 'game':
        r = trans.game_instances(c['objective'], [c['seed']])
        bad = [x for x in r if x['status'] == 'violation']
        return bool(bad), (bad[0]['detail'] if bad else 'obligations hold on this game')
    found = trans.replay_member(c['shape'], c['moore'], c['plus_one'], c['objective'], c['values'],
                                only=[c['obligation']])
    hit = [f for f in found if f[0] == c['obligation']]
    return bool(hit), (hit[0][1] if hit else 'obligation holds on this member')


def run(tier, seed, t0, only=None, pid=PID, obj=OBJ, files=FILES, shapes=None):
    shapes = shapes or shapes_for(tier)
    tasks = []
    for entry in shapes:
        shape, be = entry[:2]
        skip = entry[2] if len(entry) > 2 else ()
        modes = entry[3] if len(entry) > 3 else c01.MODES
        nstates = 4
        for moore, plus_one in modes:
            for grp in GROUPS:
                if grp[0] in skip:
                    continue
                split = (shape.startswith('B11') or shape.startswith('S11g')) and grp[0] in ('init', 'closure', 'nonblock')
                for part in (range(nstates) if split else [None]):
                    tasks.append(dict(mod='vlib.trans', fn='family_obligations',
                                      kw=dict(shape=shape, moore=moore, plus_one=plus_one, objective=obj, which=grp,
                                              state_idx=None if part is None else [part]),
                                      backend=be, timeout=1200 if tier == 'quick' else 12000,
                                      name=f'{be}:{obj}-impl:{shape}:moore={moore}:plus_one={plus_one}:{grp[0]}'
                                           + ('' if part is None else f'@state{part}')))
    nmem = 96 if tier == 'quick' else 600
    for shape in ('S11g2', 'S11g3', 'S11h2', 'S11g2h2', 'B11a', 'B11b', 'B02g2', 'B02g2h2'):
        for moore, plus_one in c01.MODES:
            sds = [seed * 7919 + i * 104729 + 13 for i in range(nmem)]
            for i in range(0, nmem, 24):
                tasks.append(dict(mod='vlib.trans', fn='member_instances',
                                  kw=dict(shape=shape, moore=moore, plus_one=plus_one, objective=obj, seeds=sds[i:i + 24]),
                                  timeout=3000, name=f'cudd:{obj}-impl:members:{shape}:moore={moore}:plus_one={plus_one}[{i}]'))
    ngames = 240 if tier == 'quick' else 3000
    gs = [seed * 100000 + i for i in range(ngames)]
    for i in range(0, ngames, 20):
        tasks.append(dict(mod='vlib.trans', fn='game_instances', kw=dict(objective=obj, seeds=gs[i:i + 20]), timeout=3000,
                          name=f'cudd:{obj}-impl:games[{i}]'))
    # longest single queries first (two-goal liveness)
    tasks.sort(key=lambda t: 0 if ('g2:' in t['name'] and t['name'].endswith(':liveness')) else 1)
    if only:
        tasks = [t for t in tasks if only in t['name']]
    results = core.run_tasks(tasks)
    states = sum(r['extra'].get('states', 0) for r in results)
    transitions = sum(r['extra'].get('transitions', 0) for r in results)
    return core.finish(
        pid, tier, seed, 'model_checking', results, t0, files=files,
        bounds=dict(families=[f'{e[0]}@{e[1]}' + (f' without {"/".join(e[2])}' if len(e) > 2 else '') + (f' modes {e[3]}' if len(e) > 3 else '') for e in shapes], modes=4, qinit='\\A \\A with EnvInit := Win',
                    liveness='Emerson-Lei fair-cycle fixpoint unrolled N x N on N explicit product states '
                             '(state x memory), edges symbolic in the table constants',
                    solver_timeout_ms=trans.SOLVER_MS),
        rule='per (family, mode): init, safety/refinement, closure, non-blocking (z3 quantifiers over next bits), '
             'semantic Moore independence per primed environment bit, exact liveness (no reachable cycle of '
             'impl /\\ EnvNext violates the acceptance condition), each as one query with all table constants '
             'existential; plus harness self-check that the family implementation restricted to seeded members '
             'equals the member\'s own. Non-trivial = some member has a winning state with an allowed step / a '
             'reachable cycle',
        assumptions=['z3', 'dd node accessors', 'EnvInit := Win makes every member realizable (strongest closed-loop claim)',
                     'pointwise family argument (checked on seeded members in the same run)'],
        outside=['product spaces above 32 explicit states for liveness', 'the other three qinit forms (C03)',
                 'environment initial conditions other than the winning region at family level'],
        extra_cov=dict(states=states, transitions=transitions, traces_validated_against_impl=0))
