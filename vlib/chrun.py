"""CrossHair runner for pure-Python kernels.

A harness module (vlib/ch/*.py) contains functions `prop_*` whose contract is
`post: _` (they return whether the property holds for their symbolic
arguments) and, for each, a reachability twin `reach_*` with `post: not _`
that must be *refuted* (otherwise the precondition is vacuous or every path
aborted).

Verdicts:  "Confirmed over all paths"  -> holds within the precondition's bound
           "false when calling f(args)" / exception -> counterexample, replayed by
                       calling the harness function concretely on the printed arguments
           "Not confirmed" / "Unable to meet precondition" -> inconclusive
"""
import ast
import importlib
import os
import re
import subprocess
import sys
import time

from vlib import core


def _lines(path):
    with open(path) as f:
        tree = ast.parse(f.read())
    return {n.name: n.lineno + 1 for n in tree.body if isinstance(n, ast.FunctionDef)}


def ch_task(module, func, timeout, functions=(), sample=None):
    """Run CrossHair on one harness function (and its reachability twin)."""
    mod = importlib.import_module(module)
    path = mod.__file__
    lines = _lines(path)
    out = []
    twin = 'reach_' + func[len('prop_'):]
    for f in (func, twin):
        if f not in lines:
            out.append(core.res(f'crosshair {module}.{f}', 'inconclusive', detail='harness function missing'))
            continue
        cmd = [sys.executable, '-m', 'crosshair', 'check', '--report_all', '--per_condition_timeout',
               str(timeout if f == func else min(timeout, 30)), f'{path}:{lines[f]}']
        env = dict(os.environ)
        t0 = time.time()
        try:
            p = subprocess.run(cmd, capture_output=True, text=True, timeout=timeout * 3 + 120, env=env,
                               cwd=os.path.dirname(path))
            text = p.stdout + p.stderr
        except subprocess.TimeoutExpired:
            text = 'TIMEOUT'
        dt = time.time() - t0
        name = f'crosshair {module.split(".")[-1]}.{f}'
        doc = (getattr(mod, f).__doc__ or '').strip().splitlines()
        smp = dict(harness=f, contract=[d.strip() for d in doc if d.strip()], **(sample or {}))
        text = re.sub(r' \(which returns .*\)\s*$', '', text, flags=re.M)
        m = re.search(r'error: (.*) when calling (\w+)\((.*)\)\s*$', text, re.M)
        if f == twin:
            if m:
                out.append(core.res(name, 'holds', queries={'refuted-as-expected': 1}, solver_s=dt, sample=smp,
                                    nontrivial=False, functions=functions))
            else:
                out.append(core.res(name, 'inconclusive', queries={'twin-not-refuted': 1}, solver_s=dt, sample=smp,
                                    detail='reachability twin was not refuted: vacuous precondition or every path '
                                           'aborted: ' + text[-300:]))
            continue
        if 'Confirmed over all paths' in text:
            out.append(core.res(name, 'holds', queries={'confirmed': 1}, solver_s=dt, sample=smp, nontrivial=True,
                                functions=functions))
        elif m:
            args = m.group(3)
            ok, why = replay_call(module, f, args)
            if ok:
                out.append(core.res(name, 'violation', queries={'counterexample': 1}, solver_s=dt, sample=smp,
                                    nontrivial=True, functions=functions, signature=f'{module.split(".")[-1]}.{f}',
                                    detail=f'{f}({args}): {why}', cex=dict(kind='crosshair', module=module, func=f, args=args)))
            else:
                out.append(core.res(name, 'inconclusive', queries={'counterexample': 1}, solver_s=dt, sample=smp,
                                    detail=f'CrossHair counterexample {f}({args}) did not reproduce: {why}'))
        else:
            out.append(core.res(name, 'inconclusive', queries={'not-confirmed': 1}, solver_s=dt, sample=smp,
                                detail='CrossHair: ' + (text.strip().splitlines()[-1] if text.strip() else 'no output')))
    return out


def replay_call(module, func, args):
    """Call the harness function concretely. True = property violated."""
    mod = importlib.import_module(module)
    f = getattr(mod, func)
    try:
        r = eval(f'f({args})', dict(vars(mod), f=f))   # arguments printed by CrossHair (literals)
    except Exception as e:  # noqa
        return True, f'raises {type(e).__name__}: {e}'
    return (not r), f'returns {r}'
