"""C09 — the computed cover is a minimum-cardinality cover by prime boxes.

Per instance (predicate F, care set CARE over small integer domains) the real
`cover.minimize` runs; its cover is listed into concrete boxes.  Facts about the
returned boxes (inside the bit range, implicant of F \\/ ~CARE, one-step maximal,
together covering F) are evaluated at every point of the domain; *minimality* is a
solver query over all alternative covers: z3 searches for k-1 boxes with Int
endpoints, each avoiding every point of CARE /\\ ~F, that together contain F.
"""
import itertools
import random
import time

from vlib import core

PID = 'C09'
FILES = ['omega/symbolic/cover.py', 'omega/symbolic/orthotopes.py']
FUNCS = ['cover.minimize', 'cover._traverse', 'cover._branch', 'cover._lower_bound', 'cover._upper_bound',
         'cover._cyclic_core_fixpoint', 'cover._max_transpose', 'cover._floor', 'cover._maxima', 'cover.unfloors',
         'cover._independent_set', 'cover._some_cover', 'orthotopes.prime_implicants',
         'orthotopes.embed_as_implicants', 'orthotopes.setup_aux_vars', 'orthotopes.setup_lattice']

DECLS = {
    'b3': dict(x=(0, 1), y=(0, 1), z=(0, 1)),
    'b4': dict(x=(0, 1), y=(0, 1), z=(0, 1), w=(0, 1)),
    'b5': dict(x=(0, 1), y=(0, 1), z=(0, 1), w=(0, 1), v=(0, 1)),
    'g44': dict(x=(0, 3), y=(0, 3)),
    'g333': dict(x=(0, 2), y=(0, 2), z=(0, 2)),
    's': dict(x=(-2, 1), y=(0, 3)),
    'n': dict(x=(-4, -1), y=(-1, 1)),
    'g88': dict(x=(0, 7), y=(0, 7)),
    'm': dict(x=(0, 3), y=(-2, 1), z=(0, 1)),
    # hints with a positive lower bound (bit ranges 0..7 and 0..3 reach below the hints)
    'p': dict(x=(2, 5), y=(1, 3)),
    # lattices of isolated points with a slice variable that only the care set mentions
    'L': dict(x=(0, 4), y=(0, 2), z=(0, 1)),
    'Ln': dict(x=(-5, -1), y=(-3, -1), z=(0, 1)),
}


def instance(kind, decl_name, arg):
    """Return (on-set mask or None, care mask or None) description -> builds (names, formulas)."""
    return dict(kind=kind, decl=decl_name, arg=arg)


def _points_formula(names, pts):
    if not pts:
        return 'FALSE'
    return ' \\/ '.join('(' + ' /\\ '.join(f'({n} = {v})' for n, v in zip(names, p)) + ')' for p in pts)


def build(inst):
    """(ctx, names, ranges, pts, f, care, description)"""
    import logging
    import omega.symbolic.fol as fol
    from vlib import coverlib
    logging.disable(logging.CRITICAL)
    decl = DECLS[inst['decl']]
    ctx = fol.Context()
    ctx.declare(**decl)
    names = list(decl)
    ranges, pts = coverlib.domain(ctx, names)
    kind = inst['kind']
    if kind == 'mask':
        mask, cmask = inst['arg']
        on = [p for i, p in enumerate(pts) if (mask >> i) & 1]
        f = ctx.add_expr(_points_formula(names, on))
        if cmask is None:
            care = ctx.true
        else:
            cs = [p for i, p in enumerate(pts) if (cmask >> i) & 1]
            care = ctx.add_expr(_points_formula(names, cs))
        desc = f'on={mask:b} care={"TRUE" if cmask is None else format(cmask, "b")}'
    elif kind == 'boxes':
        seed = inst['arg']
        rnd = random.Random(seed)

        def box():
            cs = []
            for n, (lo, hi) in zip(names, ranges):
                a = rnd.randint(lo, hi)
                b = rnd.randint(a, hi)
                cs.append(f'({n} \\in {a}..{b})')
            return '(' + ' /\\ '.join(cs) + ')'
        fs = ' \\/ '.join(box() for _ in range(rnd.randint(1, 4)))
        f = ctx.add_expr(fs)
        if rnd.random() < 0.5:
            care = ctx.true
            cs_ = 'TRUE'
        else:
            cs_ = ' \\/ '.join(box() for _ in range(rnd.randint(1, 3)))
            care = ctx.add_expr(cs_) | f if rnd.random() < 0.7 else ctx.add_expr(cs_)
        desc = f'f = {fs}; care = {cs_}'
    elif kind == 'partial':
        # f speaks about the first variable only; the care set also about the others and may leave *their* hints
        seed = inst['arg']
        rnd = random.Random(seed)
        decl = DECLS[inst['decl']]
        n0 = names[0]
        lo0, hi0 = decl[n0]
        a = rnd.randint(lo0, hi0)
        b = rnd.randint(a, hi0)
        fs = f'({n0} \\in {a}..{b})'
        f = ctx.add_expr(fs)
        cs = [f'({n0} \\in {lo0}..{hi0})']
        for n, (rl, rh) in list(zip(names, ranges))[1:]:
            c1 = rnd.randint(rl, rh)
            c2 = rnd.randint(c1, rh)
            cs.append(f'({n} \\in {c1}..{c2})')
        cs_ = ' /\\ '.join(cs)
        care = ctx.add_expr(cs_)
        desc = f'f = {fs}; care = {cs_}'
    elif kind == 'expr':
        # hand-written predicate and care set (omega syntax)
        fs, cs_ = inst['arg']
        f = ctx.add_expr(fs)
        care = ctx.add_expr(cs_)
        desc = f'f = {fs}; care = {cs_}'
    elif kind == 'slices':
        # f: isolated points of a 3 x 2 lattice in (x, y); the care set depends on z, which f does not mention: in
        # each z-slice the don't-care points join the lattice points along x, along y, both or not at all, so that
        # boxes bounded in z can give a smaller cover than boxes spanning z
        idx = inst['arg']
        rnd = random.Random(idx)
        (xl, _), (yl, _) = decl['x'], decl['y']
        lattice = [(xl + 2 * i, yl + 2 * j) for i in range(3) for j in range(2)]
        pairs = [(a, b) for a in ('x', 'y', 'both', 'none') for b in ('x', 'y', 'both', 'none') if a != b]
        dirs = pairs[idx % len(pairs)]
        keep = 1.0 if (idx // len(pairs)) % 2 == 0 else 0.85       # every pair once unthinned, then thinned
        on = [p for p in lattice if rnd.random() < keep]
        if len(on) < 3:
            on = lattice
        f = ctx.add_expr(_points_formula(['x', 'y'], on))
        dcs = []
        for v, d in enumerate(dirs):
            between = []
            if d in ('x', 'both'):
                between += [(xl + 2 * i + 1, yl + 2 * j) for i in range(2) for j in range(2)]
            if d in ('y', 'both'):
                between += [(xl + 2 * i, yl + 1) for i in range(3)]
            if d == 'both':
                between += [(xl + 2 * i + 1, yl + 1) for i in range(2)]
            between = [p for p in between if rnd.random() < keep]
            dcs += [(p[0], p[1], v) for p in between]
        care = ~ ctx.add_expr(_points_formula(['x', 'y', 'z'], dcs))
        desc = f'lattice f = {on}; don\'t-care joins per z-slice: {dirs}, {len(dcs)} points'
    else:
        raise ValueError(kind)
    return ctx, names, ranges, pts, f, care, desc


def _warm_up(inst, ctx, f, care, cov):
    """History for instances marked `warm`: the same context has minimized another predicate before (its auxiliary
    parameters are declared, caches are filled); the answer for (f, care) must not depend on that."""
    if not inst.get('warm'):
        return
    g = care & ~ f
    if g == ctx.false or care == ctx.false:
        return
    try:
        cov.minimize(g, care, ctx)
    except Exception:  # noqa: the warm-up predicate is not the subject of the obligation
        pass


def check_instances(instances):
    import z3
    import omega.symbolic.cover as cov
    import omega.symbolic.orthotopes as lat
    from vlib import coverlib
    out = []
    for inst in instances:
        ctx, names, ranges, pts, f, care, desc = build(inst)
        name = f'minimize {inst["decl"]} {desc[:80]}'
        sample = dict(decl=DECLS[inst['decl']], instance=desc[:300])
        if f == ctx.false or care == ctx.false or (f == ctx.true and care == ctx.true):
            continue   # refused by the documented preconditions of setup_aux_vars
        F = coverlib.truth_table(ctx, f, names, pts)
        CARE = coverlib.truth_table(ctx, care, names, pts)
        t1 = time.time()
        _warm_up(inst, ctx, f, care, cov)
        try:
            cover = cov.minimize(f, care, ctx)
            prm = lat.setup_aux_vars(f, care, ctx)
            boxes = coverlib.boxes_of_cover(cover, prm, ctx)
        except Exception as e:  # noqa
            import traceback
            where = traceback.extract_tb(e.__traceback__)[-1]
            out.append(core.res(name, 'violation', sample=sample, nontrivial=True, functions=FUNCS,
                                signature=f'minimize:{type(e).__name__}@{where.name}',
                                detail=f'cover.minimize raised {type(e).__name__} at {where.name}:{where.lineno} on {desc[:200]}',
                                cex=dict(inst=inst, kind='raise')))
            continue
        t_real = time.time() - t1
        # predicates over variables not in the joint support: boxes only speak about supported variables
        bn = [n for n in names if n in boxes[0]] if boxes else names
        full = [dict({n: ranges[names.index(n)] for n in names}, **b) for b in boxes]
        problems = coverlib.check_cover(full, names, ranges, pts, F, CARE)
        k = len(boxes)
        sample.update(cover_size=k, boxes=boxes[:6], minimize_s=round(t_real, 3))
        t2 = time.time()
        if k - 1 >= 7:
            r, smaller = 'skipped', None      # large covers: the set-cover formulation below decides
            q = {}
        else:
            r, smaller = coverlib.smaller_cover_exists(k - 1, names, ranges, pts, F, CARE, timeout_ms=20000)
            q = {r: 1}
        if r not in ('sat', 'unsat'):
            # same question as a set cover over the explicitly enumerated maximal boxes
            r, smaller = coverlib.smaller_cover_exists_setcover(k - 1, names, ranges, pts, F, CARE)
            q[r + '(set-cover formulation)'] = 1
        dt = time.time() - t2
        if r == 'sat':
            # replay: the witness is a concrete cover; verify it point by point
            wp = coverlib.check_cover(smaller, names, ranges, pts, F, CARE)
            wp = [p for p in wp if 'not maximal' not in p]
            if not wp:
                problems.append(f'a cover with {len(smaller)} boxes exists: {smaller}')
            else:
                out.append(core.res(name, 'inconclusive', queries=q, solver_s=dt, sample=sample,
                                    detail=f'solver witness is not a cover: {wp[0]}'))
                continue
        elif r != 'unsat':
            out.append(core.res(name, 'inconclusive', queries=q, solver_s=dt, sample=sample, detail=f'solver {r}'))
            continue
        if problems:
            sig = 'minimize:' + ('smaller-cover' if 'a cover with' in problems[-1] else problems[0].split(' ')[0] + '-' + problems[0].split(' ')[-1][:12])
            out.append(core.res(name, 'violation', queries=q, solver_s=dt, sample=sample, nontrivial=True, functions=FUNCS,
                                signature='minimize:' + ('not-minimum' if 'a cover with' in problems[-1] else 'not-a-prime-cover'),
                                detail=f'{desc[:200]}: returned {k} boxes {boxes[:4]}; {problems[-1] if "a cover with" in problems[-1] else problems[0]}',
                                cex=dict(inst=inst, kind='cover')))
        else:
            out.append(core.res(name, 'holds', queries=q, solver_s=dt, sample=sample, nontrivial=k >= 2, functions=FUNCS))
    return out


def replay(payload):
    """No z3: brute-force minimum over all boxes of the domain (domains <= 64 points)."""
    import omega.symbolic.cover as cov
    import omega.symbolic.orthotopes as lat
    from vlib import coverlib
    c = payload['cex']
    ctx, names, ranges, pts, f, care, desc = build(c['inst'])
    F = coverlib.truth_table(ctx, f, names, pts)
    CARE = coverlib.truth_table(ctx, care, names, pts)
    _warm_up(c['inst'], ctx, f, care, cov)
    try:
        cover = cov.minimize(f, care, ctx)
    except Exception as e:  # noqa
        return True, f'cover.minimize raised {type(e).__name__}: {e}'
    prm = lat.setup_aux_vars(f, care, ctx)
    boxes = coverlib.boxes_of_cover(cover, prm, ctx)
    full = [dict({n: ranges[names.index(n)] for n in names}, **b) for b in boxes]
    problems = coverlib.check_cover(full, names, ranges, pts, F, CARE)
    if problems:
        return True, problems[0]
    if len(pts) <= 64:
        k = coverlib.brute_min_cover(names, ranges, pts, F, CARE, limit=len(boxes))
        if k is not None and k < len(boxes):
            return True, f'returned {len(boxes)} boxes, a cover with {k} exists'
    return False, f'{len(boxes)} prime boxes, minimum'


def instances_for(tier, seed):
    rnd = random.Random(seed)
    insts = []
    # all Boolean functions of three two-valued variables, CARE = TRUE
    insts += [instance('mask', 'b3', (m, None)) for m in range(1, 255)]
    ncare = 150 if tier == 'quick' else 3000
    for _ in range(ncare):
        m = rnd.getrandbits(8)
        cm = m | rnd.getrandbits(8)
        if m and cm != 255:
            insts.append(instance('mask', 'b3', (m, cm)))
    if tier == 'quick':
        insts += [instance('mask', 'b4', (rnd.getrandbits(16) or 1, None)) for _ in range(400)]
    else:
        insts += [instance('mask', 'b4', (m, None)) for m in range(1, 65535)]
    # five two-valued variables: the smallest size with cyclic cores whose branching prunes
    n5 = 4000 if tier == 'quick' else 40000
    for _ in range(n5):
        dens = rnd.choice([0.55, 0.6, 0.65, 0.7])
        m = sum(1 << i for i in range(32) if rnd.random() < dens)
        insts.append(instance('mask', 'b5', (m or 1, None)))
    # random subsets of 64-point integer grids (cyclic cores whose exhaustive branching has unequal branch costs)
    n64 = 400 if tier == 'quick' else 8000
    for _ in range(n64):
        d = rnd.choice(['g333', 'g333', 'm'])
        dens = rnd.choice([0.4, 0.5, 0.6])
        m = sum(1 << i for i in range(64) if rnd.random() < dens)
        insts.append(instance('mask', d, (m or 1, None)))
    nsl = 48 if tier == 'quick' else 600
    for d in ('L', 'Ln'):
        insts += [instance('slices', d, seed * 48 + i) for i in range(nsl)]
    nb = 40 if tier == 'quick' else 600
    for d in ('g44', 'g333', 's', 'n', 'm', 'g88', 'p'):
        insts += [instance('boxes', d, seed * 1000 + i) for i in range(nb)]
        if d in ('g44', 's', 'n', 'p'):
            for _ in range(nb):
                bits = 16
                m = rnd.getrandbits(bits)
                insts.append(instance('mask', d, (m or 1, (m | rnd.getrandbits(bits)) if rnd.random() < 0.5 else None)))
    for i, inst in enumerate(insts):
        if i % 4 == 3:
            inst['warm'] = True
    return insts


def _run(tier, seed, t0, only=None, mod='vlib.props.c09', pid=PID, files=FILES):
    insts = instances_for(tier, seed)
    size = 40 if tier == 'quick' else 250
    tasks = []
    for i in range(0, len(insts), size):
        tasks.append(dict(mod=mod, fn='check_instances', kw=dict(instances=insts[i:i + size]), timeout=3000,
                          name=f'instances[{i}]'))
    # second back end on a slice
    for i in range(0, min(len(insts), 4 * size), size):
        tasks.append(dict(mod=mod, fn='check_instances', kw=dict(instances=insts[i:i + size][::4]), backend='autoref',
                          timeout=3000, name=f'autoref:instances[{i}]'))
    if only:
        tasks = [t for t in tasks if only in t['name']]
    results = core.run_tasks(tasks)
    return results, insts


def run(tier, seed, t0, only=None):
    results, insts = _run(tier, seed, t0, only)
    return core.finish(
        PID, tier, seed, 'model_checking', results, t0, files=FILES,
        bounds=dict(instances=len(insts), exhaustive_part='all 254 non-constant Boolean functions of three two-valued variables with CARE = TRUE'
                    + ('' if tier == 'quick' else '; all 65534 of four'),
                    domains={k: v for k, v in DECLS.items()}, max_domain_points=64),
        rule='one obligation per (predicate, care set): returned boxes are inside the bit range, implicants, one-step maximal '
             'and cover F (evaluated at every domain point), and z3 finds no cover with one box fewer (Int endpoints, all '
             'alternative covers). Non-trivial = the cover has at least two boxes',
        assumptions=['z3 (linear integer arithmetic)', 'Context.let is used to read the truth tables of the *inputs* F and CARE',
                     'one-step maximality is equivalent to maximality for boxes'],
        outside=['domains above 64 points', 'instances refused by setup_aux_vars (F = FALSE, CARE = FALSE, F = CARE = TRUE)'])
