"""C05 — synthesized Rabin(1) implementation (counter-strategy) realizes its condition."""
from vlib.props import c02

PID = 'C05'
FILES = ['omega/games/gr1.py']
replay = c02.replay


def shapes_for(tier):
    if tier == 'quick':
        return [('B11a', 'cudd'), ('S11', 'cudd'), ('B02', 'cudd'), ('S11', 'autoref'),
                # exact liveness with two recurrence goals on a closed system, one mode (about 200 s of z3)
                ('B02g2', 'cudd', ('init', 'closure', 'nonblock'), [(True, False)])]
    # trimmed after an end-to-end run: with two persistence predicates (S11h2) the exact-liveness query and, for
    # B11b in the Mealy / plus_one mode, the non-blocking and liveness queries came back `unknown` after 900-1100 s;
    # those obligations are checked on concrete members instead (per-member runs below)
    return [('B11a', 'cudd'), ('S11h2', 'cudd', ('liveness',)), ('S11g2', 'cudd'),
            ('B11b', 'cudd', (), [(True, True), (True, False), (False, False)]),
            ('B11b', 'cudd', ('nonblock', 'liveness'), [(False, True)]), ('S11', 'cudd'),
            ('B02', 'cudd'), ('S11', 'autoref'),
            # two goals on a closed system: 28 constants; the non-blocking query goes `unknown` there, members cover it
            ('B02g2', 'cudd', ('nonblock',))]


def run(tier, seed, t0, only=None):
    return c02.run(tier, seed, t0, only=only, pid=PID, obj='rabin', files=FILES, shapes=shapes_for(tier))
