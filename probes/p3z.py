import time, itertools, sys, z3
from p3 import build
from p1 import export  # noqa
import omega.games.gr1 as gr1
S = list(itertools.product([0,1], repeat=2))  # (x,y)
def P(name): return z3.Bool(name)
def ref_streett(moore, plus_one, n_goals, n_holds, envfull):
    def env(s, xp, yp):
        return P('e%d%d%d%d' % (s[0], s[1], xp, yp)) if envfull else P('e%d%d%d' % (s[0], s[1], xp))
    def sys_(s, xp, yp): return P('s%d%d%d%d' % (s[0], s[1], xp, yp))
    goals = [{s: P('g%d_%d%d' % (j, s[0], s[1])) for s in S} for j in range(n_goals)]
    holds = [{s: P('h%d_%d%d' % (k, s[0], s[1])) for s in S} for k in range(n_holds)]
    def cpre(Z):
        r = {}
        for s in S:
            def body(xp, yp):
                t = Z[(xp, yp)]
                if plus_one:
                    return z3.And(sys_(s, xp, yp), z3.Implies(env(s, xp, yp), t))
                return z3.Implies(env(s, xp, yp), z3.And(sys_(s, xp, yp), t))
            if moore:
                r[s] = z3.Or([z3.And([body(xp, yp) for xp in (0,1)]) for yp in (0,1)])
            else:
                r[s] = z3.And([z3.Or([body(xp, yp) for yp in (0,1)]) for xp in (0,1)])
        return r
    N = len(S) + 1
    T = {s: z3.BoolVal(True) for s in S}; F = {s: z3.BoolVal(False) for s in S}
    Z = T
    for _ in range(N):       # nu Z
        cz = cpre(Z)
        Znew = dict(Z)
        for g in goals:
            Y = F
            for _ in range(N):   # mu Y
                cy = cpre(Y)
                Ynew = dict(Y)
                for h in holds:
                    X = T
                    for _ in range(N):  # nu X
                        cx = cpre(X)
                        X = {s: z3.Or(z3.And(g[s], cz[s]), cy[s], z3.And(h[s], cx[s])) for s in S}
                    Ynew = {s: z3.Or(Ynew[s], X[s]) for s in S}
                Y = Ynew
            Znew = {s: z3.And(Znew[s], Y[s]) for s in S}
        Z = Znew
    return Z

if __name__ == '__main__':
    ng, nh, ef = int(sys.argv[1]), int(sys.argv[2]), sys.argv[3] == '1'
    for moore, plus_one in itertools.product([True, False], repeat=2):
        aut, allp = build(moore, plus_one, ng, nh, ef)
        z, _, _ = gr1.solve_streett_game(aut)
        bits = {}
        bvf = lambda n: bits.setdefault(n, z3.Bool(n))
        t0 = time.time()
        e = export(z, aut.bdd, {}, bvf)
        t1 = time.time()
        Z = ref_streett(moore, plus_one, ng, nh, ef)
        x, y = bvf('x'), bvf('y')
        ref = z3.Or([z3.And(x == bool(s[0]), y == bool(s[1]), Z[s]) for s in S])
        sol = z3.Solver(); sol.set('timeout', 600000)
        sol.add(e != ref)
        t2 = time.time()
        r = sol.check()
        print(moore, plus_one, r, f'export {t1-t0:.1f}s build {t2-t1:.1f}s solve {time.time()-t2:.1f}s', flush=True)
        if str(r) == 'sat':
            m = sol.model()
            print({str(d): m[d] for d in m.decls()})
