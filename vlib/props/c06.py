"""C06 — formula -> BDD translation agrees with integer/Boolean semantics.

Per (declaration, formula shape):
  0. acceptance: bitblast / add_expr do not raise;
  A. slugsin2smt(bitblast(f)) == sem.to_z3(f) for all bit values (divisors != 0);
  B. export(ctx.add_expr(f))  == slugsin2smt(bitblast(f)) for all bit values.
Counterexamples are replayed with `ctx.let(values, u)` against `sem.eval_py`.
"""
import itertools
import random
import time

from vlib import core

PID = 'C06'
FILES = ['omega/logic/bitvector.py', 'omega/logic/lexyacc.py', 'omega/logic/ast.py',
         'omega/symbolic/bdd.py', 'omega/symbolic/fol.py', 'omega/logic/syntax.py']
FUNCS = ['bitvector.bitblast', 'bitvector.Nodes.*.flatten', 'bitvector.flatten_comparator',
         'bitvector.flatten_arithmetic', 'bitvector.adder_subtractor', 'bitvector.multiplier',
         'bitvector.restoring_divider', 'bitvector._restoring_divider', 'bitvector.abs_',
         'bitvector._negate_if', 'bitvector.ite_function', 'bitvector.ite_connective',
         'bitvector.equalize_width', 'bitvector.sign_extension', 'bitvector.var_to_twos_complement',
         'bitvector.int_to_twos_complement', 'bitvector.dom_to_width', 'fol.Context.add_expr', 'fol.Context.to_bdd',
         'fol.Context.define', 'symbolic.bdd.add_expr']
MAXW = 28          # intermediate widths kept below the 32-bit ALU limit
SOLVER_MS = 120000


def tup(x):
    if isinstance(x, (list, tuple)):
        return tuple(tup(y) for y in x)
    return x


# ------------------------------------------------------------------ worker

def _mk_ctx(decl):
    import omega.symbolic.fol as fol
    ctx = fol.Context()
    d = {}
    for k, v in decl.items():
        d[k] = v if v == 'bool' else tuple(v)
    ctx.declare(**d)
    return ctx


def _spell_fn(seed):
    from vlib import sem
    if seed is None:
        return None
    rnd = random.Random(seed)

    def spell(kind, op, default):
        if kind == 'cmp':
            return rnd.choice(sem.CMP_SPELL[op])
        if kind == 'bin':
            return rnd.choice(sem.BIN_SPELL[op])
        if kind == 'not':
            return rnd.choice(sem.NOT_SPELL)
        if kind == 'ite':
            return rnd.choice(['ite', 'IF'])
        return default
    return spell


def _strings(case):
    """(formula string, define-string or None, tree as seen by sem)."""
    from vlib import sem
    tree = tup(case['tree'])
    spell = _spell_fn(case.get('spell'))
    if case.get('raw'):
        # the text handed to omega is NOT fully parenthesised; `tree` is its meaning by the documented precedence table
        return case['raw'], None, tree
    if case.get('mode') == 'define':
        assert tree[0] == 'let'
        defs = '\n'.join(f'{n} == {sem.to_str(e, spell)}' for n, e in tree[1])
        return sem.to_str(tree[2], spell), defs, tree
    return sem.to_str(tree, spell), None, tree


def _signature(kind, tree, table, exc=None):
    """Failure class used to match known findings: the call site / input class."""
    from vlib import sem
    ops = set()
    wide_div = [False]

    def rec(t):
        if not isinstance(t, tuple) or not t or not isinstance(t[0], str):
            return
        if t[0] == 'arith':
            ops.add(t[1])
            if t[1] in '/%':
                try:
                    if sem.width(t[3], table) > sem.width(t[2], table):
                        wide_div[0] = True
                except Exception:
                    pass
        elif t[0] == 'bin':
            ops.add(t[1])
        for c in t[1:]:
            if isinstance(c, tuple):
                rec(c)
            if isinstance(c, (list, tuple)) and c and isinstance(c[0], tuple):
                for n_e in c:
                    if isinstance(n_e, tuple) and len(n_e) == 2:
                        rec(n_e[1])
    rec(tree)
    if exc is not None:
        import traceback
        tb = traceback.extract_tb(exc.__traceback__)
        where = next((f.name for f in reversed(tb) if '/omega/' in f.filename), '?')
        if wide_div[0]:
            return f'{kind}:{type(exc).__name__}@{where}:divisor-wider-than-dividend'
        if 'xor' in ops and isinstance(exc, KeyError):
            return f'{kind}:KeyError@{where}:xor'
        return f'{kind}:{type(exc).__name__}@{where}'
    if wide_div[0]:
        return f'{kind}:divisor-wider-than-dividend'
    return f'{kind}:ops={"".join(sorted(o for o in ops if len(o) == 1))}'


def _replay_values(ctx, u, tree, values):
    """Real code vs plain Python on one assignment. True = mismatch confirmed."""
    from vlib import sem
    try:
        expected = bool(sem.eval_py(tree, ctx.vars, values))
    except sem.Undefined:
        return False, 'division by zero (outside the claim)'
    defs = {k: v for k, v in values.items() if k in ctx.vars}
    r = ctx.let(defs, u) if defs else u
    if r == ctx.true:
        got = True
    elif r == ctx.false:
        got = False
    else:
        return False, 'ctx.let left a non-constant BDD'
    return got != expected, f'omega={got} expected={expected}'


def check_cases(cases):
    import z3
    import omega.logic.bitvector as bv
    from vlib import bdd2smt, link, sem
    out = []
    for case in cases:
        name = case['name']
        t0 = time.time()
        ctx = _mk_ctx(case['decl'])
        table = ctx.vars
        s, defs, tree = _strings(case)
        sample = dict(decl=case['decl'], formula=s, define=defs)
        q = {}
        # -- obligation 0: acceptance
        try:
            if defs is not None:
                ctx.define(defs)
                flat = bv.bitblast(s, table, defs=ctx.op)
                u = ctx.add_expr(s, with_ops=True)
            else:
                flat = bv.bitblast(s, table)
                u = ctx.to_bdd(s)          # documented synonym of add_expr; the exported node is the one compared below
                assert u == ctx.add_expr(s), 'to_bdd and add_expr return different nodes for the same formula'
        except Exception as e:  # noqa
            sig = _signature('accept', tree, table, e)
            out.append(core.res(
                name, 'violation', detail=f'{type(e).__name__}: {str(e)[:120]} on {s!r} with {case["decl"]}',
                cex=dict(case=case, kind='accept'), signature=sig, sample=sample,
                nontrivial=True, functions=FUNCS))
            continue
        bits = bdd2smt.Bits()
        env = sem.Env(table, bits)
        try:
            circ = bdd2smt.slugsin2smt(flat, bits)
            ref, defined = sem.to_z3(tree, env)
        except Exception as e:  # noqa
            out.append(core.res(name, 'inconclusive', detail=f'encoding failed: {e!r} on {s!r}', sample=sample))
            continue
        exp = bdd2smt.export(u, ctx.bdd, bits)
        status = 'holds'
        detail = ''
        cex = None
        sig = ''
        solver_s = 0.0
        def ask(lhs, rhs):
            nonlocal solver_s
            sol = z3.Solver()
            sol.set('timeout', SOLVER_MS)
            sol.add(defined)
            sol.add(lhs != rhs)
            t1 = time.time()
            r = str(sol.check())
            solver_s += time.time() - t1
            return r, (sol.model() if r == 'sat' else None)

        def values_of(m):
            values = {}
            for (nm, pr) in sem.free_vars(tree):
                d = table[nm]
                a = {b: z3.is_true(m.eval(bits(b), model_completion=True))
                     for b in link.bits_of(nm, d, pr)}
                values[nm + ("'" if pr else '')] = link.bits_to_value(nm, d, a, pr)
            return values
        # A: circuit == reference, B: BDD == circuit; E (only if needed): BDD == reference.
        # Any two of the three equalities imply the third.
        rA, mA = ask(circ, ref)
        q[rA] = q.get(rA, 0) + 1
        rB, mB = ask(exp, circ)
        q[rB] = q.get(rB, 0) + 1
        rE, mE = None, None
        if 'sat' not in (rA, rB) and (rA != 'unsat' or rB != 'unsat'):
            rE, mE = ask(exp, ref)
            q[rE + '(bdd-vs-ref)'] = q.get(rE + '(bdd-vs-ref)', 0) + 1
        if rA == 'sat' or rE == 'sat':
            values = values_of(mA if rA == 'sat' else mE)
            bad, why = _replay_values(ctx, u, tree, values)
            if bad:
                status = 'violation'
                sig = _signature('semantics', tree, table)
                detail = f'{s!r} with {case["decl"]} at {values}: {why}'
                cex = dict(case=case, kind='semantics', values=values)
            elif rB == 'sat':
                values = values_of(mB)
                status = 'violation'
                sig = 'bdd-differs-from-prefix-formula'
                detail = f'BDD of {s!r} differs from its prefix formula at {values} (the BDD agrees with the integer semantics there)'
                cex = dict(case=case, kind='translator', values=values)
            else:
                status = 'inconclusive'
                detail = f'A: counterexample {values} did not reproduce through ctx.let ({why}) on {s!r}'
        elif rB == 'sat':
            values = values_of(mB)
            bad, why = _replay_values(ctx, u, tree, values)
            status = 'violation' if bad else 'inconclusive'
            sig = 'bdd-differs-from-prefix-formula'
            detail = f'BDD of {s!r} differs from its prefix formula at {values}' + ('' if bad else ' (not reproduced against Python semantics)')
            cex = dict(case=case, kind='translator', values=values)
        else:
            proven = [r for r in (rA, rB, rE) if r == 'unsat']
            if len(proven) < 2:
                status = 'inconclusive'
                detail = f'solver answered A={rA} B={rB} E={rE} on {s!r}'
        nontrivial = not (z3.is_true(z3.simplify(ref)) or z3.is_false(z3.simplify(ref)))
        out.append(core.res(name, status, queries=q, solver_s=solver_s, detail=detail, cex=cex,
                            signature=sig, sample=sample, nontrivial=nontrivial, functions=FUNCS,
                            extra=dict(bdd_nodes=len(u), wall=round(time.time() - t0, 2))))
    return out


def replay(payload):
    """Re-run one recorded counterexample on the real code, without z3."""
    cex = payload['cex']
    case = cex['case']
    ctx = _mk_ctx(case['decl'])
    s, defs, tree = _strings(case)
    try:
        if defs is not None:
            ctx.define(defs)
            u = ctx.add_expr(s, with_ops=True)
        else:
            u = ctx.add_expr(s)
    except Exception as e:  # noqa
        if cex['kind'] == 'accept':
            return True, f'{s!r} with {case["decl"]} raises {type(e).__name__}: {e}'
        return False, f'unexpected exception {e!r}'
    if cex['kind'] == 'accept':
        return False, f'{s!r} is accepted'
    bad, why = _replay_values(ctx, u, tree, cex['values'])
    return bad, f'{s!r} with {case["decl"]} at {cex["values"]}: {why}'


# ------------------------------------------------------------------ cases

UNSIGNED = {1: [(0, 1), (0, 0)], 2: [(0, 3), (1, 2)], 3: [(0, 6), (5, 5)], 4: [(2, 13)],
            5: [(0, 30)], 6: [(0, 63)], 7: [(0, 100)]}
SIGNED = {2: [(-1, 1), (-1, 0)], 3: [(-3, 4)], 4: [(-8, 7)], 5: [(-16, 15), (-20, 3)],
          6: [(-32, 20)], 7: [(-64, 63)]}
NEGATIVE = {1: [(-1, -1)], 2: [(-3, -1)], 3: [(-8, -1), (-5, -2)], 4: [(-16, -9)],
            5: [(-31, -1)], 6: [(-40, -33)], 7: [(-100, -1)]}


def doms(maxw, per=1):
    out = []
    for fam in (UNSIGNED, SIGNED, NEGATIVE):
        for w in sorted(fam):
            if w <= maxw:
                out.extend(fam[w][:per])
    return out


def V(n, p=False):
    return ('var', n, p)


def grid_cases(tier):
    cases = []
    if tier == 'quick':
        D = [(0, 1), (0, 6), (-3, 4), (-8, -1), (0, 30), (-16, 15), (5, 5), (-1, -1)]
    else:
        D = doms(7, per=2)
    # result variable wide enough for every product / sum of the grid
    for op in ('+', '-', '*', '/', '%'):
        for dx, dy in itertools.product(D, D):
            if tier != 'quick' and op == '*':
                wx = max(abs(dx[0]), abs(dx[1])).bit_length()
                wy = max(abs(dy[0]), abs(dy[1])).bit_length()
                if wx + wy > 12:
                    continue
            m = max(abs(v) + 1 for v in dx + dy)
            bound = 4 * m * m + 8
            cases.append(dict(
                name=f'arith {op} x:{dx} y:{dy}',
                decl=dict(x=dx, y=dy, r=(-bound, bound)),
                tree=('cmp', '=', ('arith', op, V('x'), V('y')), V('r'))))
    C = [(0, 1), (0, 6), (-3, 4), (-8, -1), (5, 5)] if tier == 'quick' else doms(6, per=1)
    k = 0
    for op in ('=', '#', '<', '<=', '>', '>='):
        for dx, dy in itertools.product(C, C):
            k += 1
            cases.append(dict(
                name=f'cmp {op} x:{dx} y:{dy}', decl=dict(x=dx, y=dy), spell=k,
                tree=('cmp', op, V('x'), V('y'))))
    # constants of both signs against each declaration shape
    for d in C:
        for c in (-9, -4, -1, 0, 1, 3, 8):
            for op in ('<', '=', '>='):
                cases.append(dict(name=f'const {op} {c} x:{d}', decl=dict(x=d),
                                  tree=('cmp', op, V('x'), ('num', c))))
                cases.append(dict(name=f'const-arith {c} x:{d}', decl=dict(x=d, r=(-200, 200)),
                                  tree=('cmp', '=', ('arith', '*', ('arith', '-', V('x'), ('num', c)), ('num', c)), V('r'))))
    return cases


def construct_cases():
    """Hand-written shapes: one per documented construct."""
    B = lambda n, p=False: ('bvar', n, p)
    N = lambda k: ('num', k)
    A = lambda op, a, b: ('arith', op, a, b)
    cmp_ = lambda op, a, b: ('cmp', op, a, b)
    bn = lambda op, p, q: ('bin', op, p, q)
    dI = dict(x=(0, 6), y=(-3, 4), z=(-8, -1))
    dB = dict(a='bool', b='bool', c='bool')
    dM = dict(dI, **dB)
    dP = dict(x=(0, 6), y=(-3, 4), a='bool', **{"x'": (0, 6), "y'": (-3, 4), "a'": 'bool'})
    cs = []

    def add(name, decl, tree, **kw):
        cs.append(dict(name='construct ' + name, decl=decl, tree=tree, **kw))
    for op in ('and', 'or', 'implies', 'equiv', 'xor'):
        add(f'bin {op}', dB, bn(op, B('a'), bn(op, B('b'), ('not', B('c')))))
        for sp in range(3):
            add(f'bin {op} over comparisons spelling {sp}', dM,
                bn(op, cmp_('<', V('x'), V('y')), bn('or', B('a'), cmp_('>=', V('z'), N(-4)))), spell=sp)
    add('not/const', dB, bn('and', ('not', ('const', False)), bn('or', B('a'), ('const', True))))
    for op in ('=', '#'):
        add(f'bool {op}', dB, ('beq', op, B('a'), B('b')))
        add(f'bool {op} const', dB, ('beq', op, B('a'), ('const', True)))
        add(f'bool {op} prop', dB, ('beq', op, B('a'), bn('and', B('b'), ('not', B('c')))), spell=1)
    add('in var', dI, ('in', V('y'), -2, 3))
    add('in negative', dI, ('in', V('z'), -20, -3))
    add('in empty', dI, ('in', V('x'), 4, 2))
    for style in (0, 1, 2, 3):
        add(f'ite arithmetic {style}', dM, cmp_('<=', ('ite', B('a'), V('x'), V('z')), A('+', V('y'), N(1))), spell=style)
        add(f'ite boolean {style}', dM, ('bite', cmp_('<', V('x'), N(3)), B('a'), cmp_('=', V('y'), V('z'))), spell=style)
        add(f'ite nested {style}', dM, cmp_('=', ('ite', cmp_('<', V('x'), V('y')), A('*', V('x'), V('z')), ('ite', B('b'), N(-7), V('y'))), A('-', V('z'), V('x'))), spell=style)
    add('forall int', dI, ('forall', ['x'], bn('implies', cmp_('<', V('x'), V('y')), cmp_('<', A('+', V('x'), V('z')), N(0)))))
    add('exists int', dI, ('exists', ['y'], cmp_('=', A('*', V('y'), N(2)), V('x'))))
    add('exists negative', dI, ('exists', ['z'], cmp_('=', A('+', V('z'), V('x')), V('y'))))
    add('forall bool+int', dM, ('forall', ['a', 'y'], bn('or', B('a'), cmp_('<=', V('y'), V('x')))))
    add('exists forall', dI, ('exists', ['x'], ('forall', ['y'], cmp_('>=', A('+', V('x'), V('y')), V('z')))))
    add('forall outside hint', dict(x=(-1, 1), y=(0, 2)), ('forall', ['x'], bn('implies', cmp_('=', V('x'), N(-2)), cmp_('=', V('y'), N(3)))))
    add('exists primed', dP, ('exists', ["x'"], cmp_('=', V('x', True), A('+', V('x'), V('y')))))
    add('let arithmetic', dI, ('let', [('d', A('+', V('x'), V('y')))], cmp_('<', ('ref', 'd'), A('*', ('ref', 'd'), V('z')))))
    add('let boolean', dM, ('let', [('p', cmp_('<', V('x'), V('y'))), ('q', bn('and', ('bref', 'p'), B('a')))], bn('xor', ('bref', 'q'), ('bref', 'p'))))
    add('let shadowing order', dM, ('let', [('p', B('a'))], ('let', [('q', bn('or', ('bref', 'p'), B('b')))], bn('equiv', ('bref', 'q'), B('c')))))
    add('define boolean', dM, ('let', [('p', cmp_('>', A('+', V('x'), V('y')), N(3))), ('q', bn('and', ('bref', 'p'), B('a')))], ('not', ('bref', 'q'))), mode='define')
    # arithmetic-valued registered operators: only terminals are accepted by Context.define
    add('define arithmetic terminal', dI, ('let', [('d', N(-3)), ('e', V('x'))], cmp_('>=', A('*', ('ref', 'd'), ('ref', 'e')), A('+', V('y'), N(-9)))), mode='define')
    add('prime on LET-defined arithmetic operator', dP, ('let', [('f', A('+', V('x'), N(1)))], cmp_('>', ('aprime', ('ref', 'f')), V('x'))))
    add('prime on LET-defined Boolean operator', dP, ('let', [('s', cmp_('<', V('x'), V('y')))], bn('and', ('bprime', ('bref', 's')), ('not', ('bref', 's')))))
    add('prime around a LET', dP, ('bprime', ('let', [('g', A('-', V('x'), V('y')))], cmp_('<=', ('ref', 'g'), N(1)))))
    dQ = dict(dP, z=(-3, -1), **{"z'": (-3, -1)})
    add('prime on an existential quantifier', dQ, ('bprime', ('exists', ['y'], cmp_('>', V('y'), V('x')))))
    add('prime on nested quantifiers', dQ, ('bprime', ('forall', ['y'], ('exists', ['z'], cmp_('<=', A('+', V('y'), V('z')), V('x'))))))
    add('prime on a Boolean quantifier', dQ, bn('and', ('bprime', ('exists', ['a'], bn('equiv', B('a'), cmp_('<', V('x'), N(3))))), cmp_('>', V('x'), N(1))))
    add('prime on a compound expression', dP, cmp_('=', ('aprime', A('+', V('x'), V('y'))), A('*', V('x'), N(2))))
    add('prime on registered operator', dP, ('let', [('small', cmp_('<', V('x'), N(3)))], bn('and', ('bprime', ('bref', 'small')), ('not', ('bref', 'small')))), mode='define')
    add('primes', dP, bn('and', cmp_('=', V('x', True), A('+', V('x'), N(1))), bn('equiv', B('a', True), ('not', B('a')))))
    add('primes mixed', dP, cmp_('<', A('-', V('y', True), V('y')), A('*', V('x', True), V('x'))))
    add('division by constant', dI, cmp_('=', A('/', V('y'), N(2)), A('%', V('z'), N(-3))))
    add('constant by variable', dI, cmp_('=', A('/', N(5), V('x')), A('%', N(-7), V('y'))))
    add('nested arithmetic', dI, cmp_('<', A('*', A('+', V('x'), V('y')), A('-', V('z'), N(2))), A('%', A('*', V('z'), V('z')), A('+', V('x'), N(1)))))
    # ---- unparenthesised formulas: their meaning is fixed by the documented precedence / associativity table
    #      (doc/doc.md: <=> < => < ^ < \/ < /\ < = # < comparisons < + - < * / % < ~ ; binary operators associate left)
    V_ = lambda n, p=False: ('var', n, p)

    def raw(name, d, text, tree):
        cs.append(dict(name='precedence ' + name, decl=d, raw=text, tree=tree))
    x, y, z = V_('x'), V_('y'), V_('z')
    a, b, c = B('a'), B('b'), B('c')
    raw('minus then plus', dI, 'x - y + z >= 0', cmp_('>=', A('+', A('-', x, y), z), N(0)))
    raw('minus minus', dI, 'x - y - z = 1', cmp_('=', A('-', A('-', x, y), z), N(1)))
    raw('plus times', dI, 'x + y * z = 2', cmp_('=', A('+', x, A('*', y, z)), N(2)))
    raw('times minus', dI, 'x * y - z < 3', cmp_('<', A('-', A('*', x, y), z), N(3)))
    raw('minus times plus', dI, 'x - y * 2 + z >= 0', cmp_('>=', A('+', A('-', x, A('*', y, N(2))), z), N(0)))
    raw('quotient times', dI, 'x / 2 * 3 = y', cmp_('=', A('*', A('/', x, N(2)), N(3)), y))
    raw('remainder plus', dI, 'x % 3 + y = 1', cmp_('=', A('+', A('%', x, N(3)), y), N(1)))
    raw('both sides', dI, 'x - 1 + y = z - y + 1', cmp_('=', A('+', A('-', x, N(1)), y), A('+', A('-', z, y), N(1))))
    raw('comparison of sums', dI, 'x + 1 < y * 2', cmp_('<', A('+', x, N(1)), A('*', y, N(2))))
    raw('or and', dB, 'a \\/ b /\\ c', bn('or', a, bn('and', b, c)))
    raw('and or', dB, 'a /\\ b \\/ c', bn('or', bn('and', a, b), c))
    raw('implies implies', dB, 'a => b => c', bn('implies', bn('implies', a, b), c))
    raw('equiv implies', dB, 'a <=> b => c', bn('equiv', a, bn('implies', b, c)))
    raw('not and', dB, '~ a /\\ b', bn('and', ('not', a), b))
    raw('xor or', dB, 'a ^ b \\/ c', bn('xor', a, bn('or', b, c)))
    raw('or implies and', dB, 'a \\/ b => c /\\ a', bn('implies', bn('or', a, b), bn('and', c, a)))
    raw('equality and comparison', dM, 'x = y /\\ y < z \\/ a', bn('or', bn('and', cmp_('=', x, y), cmp_('<', y, z)), a))
    raw('promela spellings', dB, 'a || b && ! c -> a', bn('implies', bn('or', a, bn('and', b, ('not', c))), a))
    raw('primed operand in a sum', dP, "x' - x + 1 > y", cmp_('>', A('+', A('-', V_('x', True), x), N(1)), y))

    return cs


def _double_prime(t, inside=False, defs=None):
    """True if some primed identifier (or prime operator) occurs under a prime operator, also through LET names."""
    defs = defs or {}
    if not isinstance(t, tuple):
        return False
    k = t[0]
    if k in ('var', 'bvar'):
        return inside and bool(t[2])
    if k in ('ref', 'bref'):
        return inside and defs.get(t[1], False)
    if k in ('aprime', 'bprime'):
        return inside or _double_prime(t[1], True, defs)
    if k == 'let':
        d2 = dict(defs)
        for nm, e in t[1]:
            if _double_prime(e, inside, d2):
                return True
            d2[nm] = _has_prime(e, d2)
        return _double_prime(t[2], inside, d2)
    return any(_double_prime(c, inside, defs) for c in t[1:] if isinstance(c, (tuple, list)) and c and isinstance(c, tuple))


def _has_prime(t, defs):
    if not isinstance(t, tuple):
        return False
    k = t[0]
    if k in ('var', 'bvar'):
        return bool(t[2])
    if k in ('ref', 'bref'):
        return defs.get(t[1], False)
    if k in ('aprime', 'bprime'):
        return True
    if k == 'let':
        d2 = dict(defs)
        for nm, e in t[1]:
            d2[nm] = _has_prime(e, d2)
        return any(d2[nm] for nm, _ in t[1]) and _has_prime(t[2], d2) or _has_prime(t[2], d2)
    return any(_has_prime(c, defs) for c in t[1:] if isinstance(c, tuple))


def random_cases(n, seed, maxw, depth):
    """Seeded generator over the documented first-order grammar."""
    from vlib import sem
    import omega.logic.bitvector as bv
    rnd = random.Random(seed)
    D = doms(maxw, per=2)
    out = []
    tries = 0
    while len(out) < n and tries < 50 * n:
        tries += 1
        ints = ['x', 'y', 'z'][:rnd.choice([2, 3])]
        bools = ['a', 'b'][:rnd.choice([1, 2])]
        decl = {v: rnd.choice(D) for v in ints}
        decl.update({v: 'bool' for v in bools})
        primed = rnd.random() < 0.3
        if primed:
            for v in list(decl):
                decl[v + "'"] = decl[v]
        table = bv.bitblast_table(bv.make_symbol_table({k: v for k, v in decl.items()}))
        lets = []

        def gen_a(d, refs):
            r = rnd.random()
            if d == 0 or r < 0.25:
                c = rnd.random()
                if c < 0.6:
                    return ('var', rnd.choice(ints), primed and rnd.random() < 0.4)
                if c < 0.9 or not refs:
                    return ('num', rnd.randint(-9, 9))
                r_ = ('ref', rnd.choice(refs))
                return ('aprime', r_) if primed and rnd.random() < 0.4 else r_
            if r < 0.85:
                op = rnd.choice(['+', '-', '*', '/', '%', '+', '-', '*'])
                return ('arith', op, gen_a(d - 1, refs), gen_a(d - 1, refs))
            return ('ite', gen_b(d - 1, refs, (), False), gen_a(d - 1, refs), gen_a(d - 1, refs))

        def gen_prop(d):
            # Boolean operands allowed under `=` / `#`: no comparators, no quantifiers
            if d == 0 or rnd.random() < 0.4:
                if rnd.random() < 0.2:
                    return ('const', rnd.random() < 0.5)
                return ('bvar', rnd.choice(bools), primed and rnd.random() < 0.4)
            if rnd.random() < 0.3:
                return ('not', gen_prop(d - 1))
            return ('bin', rnd.choice(['and', 'or', 'implies', 'equiv']), gen_prop(d - 1), gen_prop(d - 1))

        def gen_b(d, refs, brefs, allowq=True):
            r = rnd.random()
            if d == 0:
                if r < 0.5 or not brefs:
                    return ('bvar', rnd.choice(bools), primed and rnd.random() < 0.4)
                r_ = ('bref', rnd.choice(brefs))
                return ('bprime', r_) if primed and rnd.random() < 0.4 else r_
            if r < 0.45:
                return ('cmp', rnd.choice(sem.CMP), gen_a(d - 1, refs), gen_a(d - 1, refs))
            if r < 0.52:
                return ('beq', rnd.choice(['=', '#']), gen_prop(d - 1), gen_prop(d - 1))
            if r < 0.60:
                return ('not', gen_b(d - 1, refs, brefs, allowq))
            if r < 0.78:
                return ('bin', rnd.choice(['and', 'or', 'implies', 'equiv', 'xor']),
                        gen_b(d - 1, refs, brefs, allowq), gen_b(d - 1, refs, brefs, allowq))
            if r < 0.84:
                return ('bite', gen_b(d - 1, refs, brefs, allowq), gen_b(d - 1, refs, brefs, allowq),
                        gen_b(d - 1, refs, brefs, allowq))
            if r < 0.89:
                v = rnd.choice(ints)
                lo = rnd.randint(-9, 9)
                return ('in', ('var', v, False), lo, lo + rnd.randint(-1, 8))
            if r < 0.96 and allowq:
                qv = rnd.sample(ints + bools, rnd.choice([1, 1, 2]))
                qn = (rnd.choice(['forall', 'exists']), qv, gen_b(d - 1, refs, brefs, True))
                return ('bprime', qn) if primed and rnd.random() < 0.3 else qn
            if allowq:
                if rnd.random() < 0.5:
                    nm = f'd{len(refs)}'
                    e = gen_a(d - 1, refs)
                    return ('let', [(nm, e)], gen_b(d - 1, list(refs) + [nm], brefs, True))
                nm = f'p{len(brefs)}'
                e = gen_b(d - 1, refs, brefs, False)
                return ('let', [(nm, e)], gen_b(d - 1, refs, list(brefs) + [nm], True))
            return ('bvar', rnd.choice(bools), False)

        tree = gen_b(depth, [], [])
        if _double_prime(tree):
            continue          # a prime applied to an expression that already mentions a primed identifier has no meaning
        try:
            if sem.max_width(tree, table) >= MAXW:
                continue
        except Exception:
            continue
        out.append(dict(name=f'random#{seed}.{len(out)}', decl=decl, tree=tree,
                        spell=rnd.randint(0, 10**6)))
    return out


def batches(cases, size):
    return [cases[i:i + size] for i in range(0, len(cases), size)]


def run(tier, seed, t0, only=None):
    cases = grid_cases(tier) + construct_cases()
    if tier == 'quick':
        cases += random_cases(80, seed, 5, 2) + random_cases(40, seed + 1, 5, 3)
        backends = ['cudd']
    else:
        cases += random_cases(1500, seed, 6, 2) + random_cases(1500, seed + 1, 5, 3)
        backends = ['cudd']
    if only:
        cases = [c for c in cases if only in c['name']]
    tasks = []
    heavy = [c for c in cases if c['name'].startswith('arith')]
    light = [c for c in cases if not c['name'].startswith('arith')]
    for be in backends:
        for i, b in enumerate(batches(heavy, 4)):
            tasks.append(dict(mod='vlib.props.c06', fn='check_cases', kw=dict(cases=b),
                              backend=be, timeout=1500, name=f'{be}:arith[{i}]'))
        for i, b in enumerate(batches(light, 25)):
            tasks.append(dict(mod='vlib.props.c06', fn='check_cases', kw=dict(cases=b),
                              backend=be, timeout=1500, name=f'{be}:shapes[{i}]'))
    # autoref: instance-level subset (constructs + a slice of the grid)
    sub = construct_cases() + [c for c in heavy if c['name'].endswith("x:(-3, 4) y:(0, 6)")]
    if only:
        sub = [c for c in sub if only in c['name']]
    for i, b in enumerate(batches(sub, 25)):
        tasks.append(dict(mod='vlib.props.c06', fn='check_cases', kw=dict(cases=b),
                          backend='autoref', timeout=1500, name=f'autoref:shapes[{i}]'))
    results = core.run_tasks(tasks)
    return core.finish(
        PID, tier, seed, 'model_checking', results, t0, files=FILES,
        bounds=dict(widths='1..5 bits per operand independently (thorough 1..7)',
                    depth='random trees of depth <= 3', intermediate_width=f'< {MAXW} bits',
                    solver_timeout_ms=SOLVER_MS, oracle='64-bit bit-vector arithmetic (bvsdiv/bvsrem)'),
        rule='one obligation per (declaration, formula shape): grid of binary arithmetic operators and '
             'comparators over operand declarations, one shape per documented construct, seeded random '
             'trees; non-trivial = the reference truth value is not constant; distinct = distinct '
             '(declaration, formula string)',
        assumptions=['z3 5.1.0 decides the QF_BV/Bool queries', 'dd node accessors (.var/.low/.high/.negated)',
                     'link: two\'s complement with omitted constant sign bit, as stated in C06/C18',
                     'all divisors non-zero (guard); Boolean operands of = / # are propositional'],
        outside=['intermediate widths >= 28 bits', '<<>> truncation, string constants, temporal operators, \\S',
                 'comparators or quantifiers nested under Boolean =/#  and arithmetic left of \\in (refused by the translator)',
                 'operator precedence (C16): formulas are printed fully parenthesised'])
