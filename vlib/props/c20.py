"""C20 — converting a labelled graph to logic yields exactly the transitions of the graph.

The oracle is built from the *graph*, never from the library's strings:

  Act(s, s')  <=>  [ \\/_{(u,v,l) in E} nd=u /\\ nd'=v /\\ [[l]](s,s')   \\/  nd'=nd if self_loops ]
                   /\\  /\\_v ( nd'=v => [[label_v]](s') )
  Init(s)     <=>  nd in initial nodes  /\\  /\\_u ( nd=u => [[label_u]](s) )

with [[.]] from `sem` trees (labels are generated as trees and printed for omega).  z3
decides, for all valuations of the node variable (restricted to node values of the
graph), the labelled variables and their primed copies, that the exported
`action[owner]` and `init[owner]` of `logicizer.graph_to_logic` equal the oracle, that dead
ends admit no step, and that the other player's action is TRUE unless `receptive`.
Families: edge presence and label constants as rigid constants (all sub-graphs of the
complete multigraph on <= 3 nodes, with labels `e_uv /\\ (y' = y + c_uv)`) in one run.
"""
import itertools
import random
import time
import warnings

from vlib import core

PID = 'C20'
FILES = ['omega/symbolic/logicizer.py', 'omega/automata.py']
FUNCS = ['logicizer.graph_to_logic', 'logicizer._graph_to_formulas', 'logicizer._sys_trans', 'logicizer._env_trans',
         'logicizer._env_trans_from_sys_ts', 'logicizer._node_var_trans', 'logicizer._init_from_ts',
         'logicizer._to_action', 'logicizer._assign', 'automata.TransitionSystem']
SOLVER_MS = 120000

VARSETS = [
    dict(vars=dict(y=(0, 3), b='bool'), env=[]),
    dict(vars=dict(y=(-2, 1), x='bool'), env=['x']),
    dict(vars=dict(y=(0, 2), x=(0, 1), b='bool'), env=['x']),
    dict(vars=dict(y=(-3, -1)), env=[]),
]


def gen_graph(seed):
    """Seeded concrete transition system as plain data (JSON-able)."""
    from vlib import sem
    rnd = random.Random(seed)
    vs = VARSETS[seed % len(VARSETS)]
    decl = vs['vars']
    ints = [k for k, v in decl.items() if v != 'bool']
    bools = [k for k, v in decl.items() if v == 'bool']
    n = rnd.randint(2, 5)
    nodes = list(range(n)) if rnd.random() < 0.7 else sorted(rnd.sample(range(0, 7), n))

    def rnd_val(k):
        if decl[k] == 'bool':
            return rnd.random() < 0.5
        return rnd.randint(*decl[k])

    def formula(primes):
        def v(k):
            return ('var', k, primes and rnd.random() < 0.6)

        def atom():
            if bools and rnd.random() < 0.3:
                k = rnd.choice(bools)
                return ('bvar', k, primes and rnd.random() < 0.6)
            a = v(rnd.choice(ints))
            b = ('arith', rnd.choice(['+', '-']), v(rnd.choice(ints)), ('num', rnd.randint(0, 2))) if rnd.random() < 0.5 \
                else ('num', rnd.randint(-3, 3))
            return ('cmp', rnd.choice(['=', '<=', '>=', '#', '<']), a, b)
        if rnd.random() < 0.5:
            return atom()
        return ('bin', rnd.choice(['and', 'or', 'implies']), atom(), atom())

    def label(primes):
        d = {}
        r = rnd.random()
        if r < 0.35:
            k = rnd.choice(list(decl))
            d[k + ("'" if primes and rnd.random() < 0.8 else '')] = rnd_val(k)
        elif r < 0.55:
            for k in rnd.sample(list(decl), min(2, len(decl))):
                d[k + ("'" if primes and rnd.random() < 0.8 else '')] = rnd_val(k)
        elif r < 0.8:
            d['formula'] = formula(primes)
        elif r < 0.9:
            d['formula'] = formula(primes)
            k = rnd.choice(list(decl))
            d[k + ("'" if primes else '')] = rnd_val(k)
        return d
    node_labels = {u: label(False) for u in nodes}
    edges = []
    for u in nodes:
        if rnd.random() < 0.2:
            continue    # dead end
        for _ in range(rnd.randint(1, 3)):
            edges.append((u, rnd.choice(nodes), label(True)))   # multi-edges possible
    initial = rnd.sample(nodes, rnd.randint(1, len(nodes)))
    return dict(decl=decl, env=vs['env'], nodes=nodes, node_labels=node_labels, edges=edges, initial=initial,
                owner=rnd.choice(['sys', 'env']), self_loops=rnd.random() < 0.35, receptive=rnd.random() < 0.3,
                ignore_initial=rnd.random() < 0.2)


def _tup(x):
    if isinstance(x, (list, tuple)):
        return tuple(_tup(y) for y in x)
    return x


def build_ts(g):
    from omega.automata import TransitionSystem
    from vlib import sem
    ts = TransitionSystem()
    ts.owner = g['owner']
    for k, v in g['decl'].items():
        ts.vars[k] = v if v == 'bool' else tuple(v)
    ts.env_vars = set(g['env'])

    def conv(d):
        out = {}
        for k, v in d.items():
            out[k] = sem.to_str(_tup(v)) if k == 'formula' else v
        return out
    for u in g['nodes']:
        ts.add_node(u, **conv(g['node_labels'][u] if u in g['node_labels'] else g['node_labels'][str(u)]))
    for u, v, d in g['edges']:
        ts.add_edge(u, v, **conv(d))
    ts.initial_nodes = set(g['initial'])
    return ts


def oracle(g, env_z3, z3, ND, NDP, W):
    """(Act, Init, dead) as z3 terms. ND / NDP: bit-vector terms of the node variable."""
    from vlib import sem

    def lab(d, primed_state):
        """[[label]]; node labels are evaluated on the next valuation when primed_state."""
        cs = []
        for k, v in d.items():
            if k == 'formula':
                t = _tup(v)
                if primed_state:
                    t = _prime_tree(t)
                cs.append(sem.to_z3(t, env_z3)[0])
                continue
            pr = k.endswith("'")
            base = k[:-1] if pr else k
            pr = pr or primed_state
            if g['decl'][base] == 'bool':
                b = env_z3.bvar(base, pr)
                cs.append(b if v else z3.Not(b))
            else:
                cs.append(env_z3.ivar(base, pr) == z3.BitVecVal(v, W))
        return z3.And(cs) if cs else z3.BoolVal(True)
    nl = {u: (g['node_labels'][u] if u in g['node_labels'] else g['node_labels'][str(u)]) for u in g['nodes']}
    bv = lambda k: z3.BitVecVal(k, W)
    edge_terms = [z3.And(ND == bv(u), NDP == bv(v), lab(d, False)) for u, v, d in g['edges']]
    step = z3.Or(edge_terms) if edge_terms else z3.BoolVal(False)
    if g['self_loops']:
        step = z3.Or(step, NDP == ND)
    target = z3.And([z3.Implies(NDP == bv(v), lab(nl[v], True)) for v in g['nodes']])
    act = z3.And(step, target)
    init_nodes = z3.Or([ND == bv(u) for u in g['initial']])
    labels_now = z3.And([z3.Implies(ND == bv(u), lab(nl[u], False)) for u in g['nodes']])
    init = labels_now if g['ignore_initial'] else z3.And(init_nodes, labels_now)
    in_graph = z3.Or([ND == bv(u) for u in g['nodes']])
    has_succ = {u for u, _, _ in g['edges']}
    dead = [u for u in g['nodes'] if u not in has_succ]
    return act, init, in_graph, dead


def _prime_tree(t):
    if not isinstance(t, tuple):
        return t
    if t[0] in ('var', 'bvar'):
        return (t[0], t[1], True)
    return tuple(_prime_tree(x) for x in t)


def check_graphs(seeds):
    import z3
    import omega.symbolic.logicizer as lz
    from vlib import bdd2smt, link, sem
    out = []
    for seed in seeds:
        g = gen_graph(seed)
        name = f'graph #{seed} owner={g["owner"]} self_loops={g["self_loops"]} receptive={g["receptive"]}'
        ts = build_ts(g)
        sample = dict(nodes=g['nodes'], edges=[(u, v, {k: (sem.to_str(_tup(x)) if k == 'formula' else x) for k, x in d.items()})
                                               for u, v, d in g['edges']][:8],
                      node_labels={u: {k: (sem.to_str(_tup(x)) if k == 'formula' else x) for k, x in d.items()}
                                   for u, d in g['node_labels'].items()},
                      initial=g['initial'], owner=g['owner'], self_loops=g['self_loops'], vars=g['decl'])
        t1 = time.time()
        try:
            with warnings.catch_warnings():
                warnings.simplefilter('ignore')
                # history: the same TransitionSystem object is converted twice (first with receptiveness assumptions, which
                # walk the graph's own edge dicts); the second conversion is the one that is checked
                lz.graph_to_logic(ts, 'nd', g['ignore_initial'], receptive=True, self_loops=g['self_loops'])
                aut = lz.graph_to_logic(ts, 'nd', g['ignore_initial'], receptive=g['receptive'], self_loops=g['self_loops'])
        except Exception as e:  # noqa
            import traceback
            where = traceback.extract_tb(e.__traceback__)[-1]
            out.append(core.res(name, 'violation', sample=sample, nontrivial=True, functions=FUNCS,
                                signature=f'graph_to_logic:{type(e).__name__}@{where.name}',
                                detail=f'graph_to_logic raised {type(e).__name__} at {where.name}:{where.lineno}: {str(e)[:120]}',
                                cex=dict(seed=seed, kind='raise')))
            continue
        exp = bdd2smt.Exporter(aut.bdd)
        bits = exp.bits
        table = aut.vars
        env = sem.Env({k: v for k, v in table.items() if not k.endswith("'")}, bits)
        W = link.W
        ND = link.bv_of('nd', table['nd'], bits)
        NDP = link.bv_of('nd', table['nd'], bits, primed=True)
        act, init, in_graph, dead = oracle(g, env, z3, ND, NDP, W)
        owner = g['owner']
        other = 'env' if owner == 'sys' else 'sys'
        A = exp.export(aut.action[owner])
        I = exp.export(aut.init[owner])
        O = exp.export(aut.action[other])
        OI = exp.export(aut.init[other])
        q = {}
        problems = []
        names = [k for k in table if not k.endswith("'")]

        def chk(label, fs):
            sol = z3.Solver()
            sol.set('timeout', SOLVER_MS)
            sol.add(*fs)
            r = str(sol.check())
            q[r] = q.get(r, 0) + 1
            if r == 'sat':
                m = sol.model()
                cur = link.model_values(m, {k: table[k] for k in names}, bits)
                nxt = link.model_values(m, {k: table[k] for k in names}, bits, primed=True)
                problems.append((label, dict(cur, **nxt)))
            elif r != 'unsat':
                problems.append((label, 'unknown'))
        # every node of the graph is a value of the node variable as declared (otherwise the obligations below,
        # which range over the valuations of the declared bits, would silently skip that node)
        for u in g['nodes']:
            sol = z3.Solver()
            sol.add(ND == z3.BitVecVal(u, W))
            r = str(sol.check())
            q[r] = q.get(r, 0) + 1
            if r == 'unsat':
                problems.append((f'node {u} is not a value of the node variable as declared ({table["nd"].get("dom")}, '
                                 f'{table["nd"].get("width")} bits)', dict(nd=u, unrepresentable=True)))
        chk('action of the owner differs from the edges of the graph', [in_graph, A != act])
        chk('initial condition differs from the initial nodes and labels', [in_graph, I != init])
        for u in ([] if g['self_loops'] else dead):   # with self_loops every node, dead ends included, gets its loop
            chk(f'dead end {u} admits a step', [ND == z3.BitVecVal(u, W), A])
        if not g['receptive'] or owner == 'env':
            chk('the other player\'s action is constrained', [z3.Not(O)])
        chk('the other player\'s initial condition is constrained', [z3.Not(OI)])
        dt = time.time() - t1
        if not problems:
            out.append(core.res(name, 'holds', queries=q, solver_s=dt, sample=sample, nontrivial=len(g['edges']) >= 2,
                                functions=FUNCS))
            continue
        label, vals = problems[0]
        if vals == 'unknown':
            out.append(core.res(name, 'inconclusive', queries=q, solver_s=dt, sample=sample, detail=f'{label}: solver unknown'))
            continue
        cex = dict(seed=seed, kind='graph', label=label, values=vals)
        ok, why = replay(dict(cex=cex))
        out.append(core.res(name, 'violation' if ok else 'inconclusive', queries=q, solver_s=dt, sample=sample,
                            nontrivial=True, functions=FUNCS, signature='graph:' + label.split(' ')[0] + '-' + label.split(' ')[1],
                            detail=f'{label} at {vals}; replay: {why}', cex=cex))
    return out


def _py_oracle(g, vals):
    """Plain Python evaluation of Act / Init at a pair of valuations."""
    from vlib import sem
    decl = dict(g['decl'])
    table = {k: dict(type='bool') if v == 'bool' else dict(type='int', dom=v) for k, v in decl.items()}

    def lab(d, primed_state):
        ok = True
        for k, v in d.items():
            if k == 'formula':
                t = _tup(v)
                if primed_state:
                    t = _prime_tree(t)
                ok = ok and bool(sem.eval_py(t, table, vals))
                continue
            key = k if k.endswith("'") or not primed_state else k + "'"
            ok = ok and (vals[key] == v)
        return ok
    nl = {u: (g['node_labels'][u] if u in g['node_labels'] else g['node_labels'][str(u)]) for u in g['nodes']}
    nd, ndp = vals['nd'], vals["nd'"]
    step = any(nd == u and ndp == v and lab(d, False) for u, v, d in g['edges'])
    if g['self_loops']:
        step = step or ndp == nd
    act = step and all(lab(nl[v], True) for v in g['nodes'] if ndp == v)
    init = all(lab(nl[u], False) for u in g['nodes'] if nd == u)
    if not g['ignore_initial']:
        init = init and nd in g['initial']
    return act, init


def replay(payload):
    import omega.symbolic.logicizer as lz
    c = payload['cex']
    g = gen_graph(c['seed'])
    ts = build_ts(g)
    try:
        with warnings.catch_warnings():
            warnings.simplefilter('ignore')
            lz.graph_to_logic(ts, 'nd', g['ignore_initial'], receptive=True, self_loops=g['self_loops'])
            aut = lz.graph_to_logic(ts, 'nd', g['ignore_initial'], receptive=g['receptive'], self_loops=g['self_loops'])
    except Exception as e:  # noqa
        return True, f'graph_to_logic raised {type(e).__name__}: {e}'
    if c['kind'] == 'raise':
        return False, 'graph_to_logic accepted the graph'
    vals = c['values']
    if vals.get('unrepresentable'):
        from vlib import link
        lo, hi = link.rep_range(aut.vars['nd'])
        return not (lo <= vals['nd'] <= hi), f'node variable declared as {aut.vars["nd"].get("dom")}: bit range {lo}..{hi}'
    if vals['nd'] not in g['nodes']:
        return False, 'node value outside the graph'

    def truth(u):
        sup = aut.support(u)
        d = {k: v for k, v in vals.items() if k in sup}
        r = aut.let(d, u) if d else u
        return r == aut.true
    act, init = _py_oracle(g, vals)
    owner = g['owner']
    other = 'env' if owner == 'sys' else 'sys'
    got_a, got_i = truth(aut.action[owner]), truth(aut.init[owner])
    if got_a != act:
        return True, f'action[{owner}] is {got_a}, the graph gives {act}'
    if got_i != init:
        return True, f'init[{owner}] is {got_i}, the graph gives {init}'
    if (not g['receptive'] or owner == 'env') and not truth(aut.action[other]):
        return True, f'action[{other}] is FALSE here although no receptiveness was requested'
    if not truth(aut.init[other]):
        return True, f'init[{other}] is constrained'
    return False, 'action and initial condition agree with the graph at this pair of valuations'


# ------------------------------------------------------------------ family: all sub-graphs at once

def family_subgraphs(n, owner, self_loops):
    """Edge presence e_uv_k and increments c_uv as rigid constants: every sub-multigraph of the
    complete graph on n nodes with up to two parallel edges, labels `e /\\ (y' = y + c)`."""
    import z3
    import omega.symbolic.logicizer as lz
    import omega.symbolic.temporal as trl
    from omega.automata import TransitionSystem
    from vlib import bdd2smt, link
    ts = TransitionSystem()
    ts.owner = owner
    ts.vars['y'] = (0, 3)
    aut = trl.Automaton()
    consts = {}
    edges = []
    for u in range(n):
        ts.add_node(u)
        for v in range(n):
            for k in range(2):
                e = f'e_{u}_{v}_{k}'
                c = f'c_{u}_{v}_{k}'
                consts[e] = 'bool'
                consts[c] = (0, 1)
                ts.add_edge(u, v, formula=f"{e} /\\ (y' = y + {c})")
                edges.append((u, v, e, c))
    ts.initial_nodes = {0}
    aut.declare_constants(**consts)
    with warnings.catch_warnings():
        warnings.simplefilter('ignore')
        aut = lz.graph_to_logic(ts, 'nd', False, self_loops=self_loops, aut=aut)
    exp = bdd2smt.Exporter(aut.bdd)
    bits = exp.bits
    t = aut.vars
    W = link.W
    ND, NDP = link.bv_of('nd', t['nd'], bits), link.bv_of('nd', t['nd'], bits, primed=True)
    Y, YP = link.bv_of('y', t['y'], bits), link.bv_of('y', t['y'], bits, primed=True)
    bv = lambda k: z3.BitVecVal(k, W)
    terms = [z3.And(ND == bv(u), NDP == bv(v), bits(e), YP == Y + link.bv_of(c, t[c], bits)) for u, v, e, c in edges]
    act = z3.Or(terms)
    if self_loops:
        act = z3.Or(act, NDP == ND)
    in_graph = z3.Or([ND == bv(u) for u in range(n)])
    A = exp.export(aut.action[owner])
    sol = z3.Solver()
    sol.set('timeout', SOLVER_MS)
    sol.add(in_graph, A != act)
    t1 = time.time()
    r = str(sol.check())
    dt = time.time() - t1
    name = f'family sub-graphs n={n} owner={owner} self_loops={self_loops}'
    sample = dict(nodes=n, parallel_edges=2, constants=len(consts), graphs=f'2^{len(edges)} edge sets x 2^{len(edges)} increments')
    if r == 'unsat':
        return [core.res(name, 'holds', queries={r: 1}, solver_s=dt, sample=sample, nontrivial=True, functions=FUNCS)]
    if r == 'sat':
        m = sol.model()
        on = [e for _, _, e, _ in edges if z3.is_true(m.eval(bits(e), model_completion=True))]
        return [core.res(name, 'violation', queries={r: 1}, solver_s=dt, sample=sample, nontrivial=True, functions=FUNCS,
                         signature='graph:family', detail=f'sub-graph with edges {on}: action differs from the graph',
                         cex=dict(kind='family', n=n, owner=owner, self_loops=self_loops, edges=on))]
    return [core.res(name, 'inconclusive', queries={r: 1}, solver_s=dt, sample=sample, detail=r)]


def run(tier, seed, t0, only=None):
    n = 640 if tier == 'quick' else 6000
    seeds = [seed * 100000 + i for i in range(n)]
    tasks = []
    for i in range(0, n, 10):
        tasks.append(dict(mod='vlib.props.c20', fn='check_graphs', kw=dict(seeds=seeds[i:i + 10]), timeout=1800,
                          name=f'graphs[{i}]'))
    for i in range(0, n // 4, 10):
        tasks.append(dict(mod='vlib.props.c20', fn='check_graphs', kw=dict(seeds=seeds[i:i + 10]), backend='autoref',
                          timeout=1800, name=f'autoref:graphs[{i}]'))
    for nn in ((2, 3) if tier == 'quick' else (2, 3)):
        for owner in ('sys', 'env'):
            for sl in (False, True):
                tasks.append(dict(mod='vlib.props.c20', fn='family_subgraphs', kw=dict(n=nn, owner=owner, self_loops=sl),
                                  timeout=1800, name=f'family:n={nn}:{owner}:self_loops={sl}'))
    if only:
        tasks = [t for t in tasks if only in t['name']]
    results = core.run_tasks(tasks)
    return core.finish(
        PID, tier, seed, 'model_checking', results, t0, files=FILES,
        bounds=dict(graphs=f'{n} seeded transition systems with 2-5 nodes (also non-contiguous node ids), multi-edges, dead ends, '
                           'partial assignments and formula labels over primed and unprimed variables, both owners, '
                           'with/without self loops, receptiveness and initial nodes',
                    families='all sub-multigraphs (two parallel edges) of the complete graph on 2 and 3 nodes with labels '
                             'e /\\ (y\' = y + c), edge presence and increments as rigid constants'),
        rule='one obligation per graph: z3 decides action[owner] == graph transitions and init[owner] == initial nodes with '
             'labels for every valuation with a node value in the graph, dead ends admit no step, the other player is '
             'unconstrained. Non-trivial = at least two edges',
        assumptions=['z3', 'dd node accessors', 'label formulas are generated as sem trees and printed fully parenthesised'],
        outside=['string-enumeration variable domains', 'graphs above 5 nodes', 'the exact form of receptiveness assumptions'])
