"""C04 — Rabin(1) region exact; dual to the opponent's Streett(1) region.

(a) exactness: as C01 with the Rabin reference (vlib.props.c01.family_region).
(b) duality, no oracle: real Streett solver on the game, real Rabin solver on the
    dual game built in a *separate* BDD manager; z3 decides
    `exists tables, state: not (zS xor zR)` over the two exports.
(c) trivial_winning_set against the composition of the two references.
"""
import os
import itertools
import time

from vlib import core
from vlib.props import c01

PID = 'C04'
FILES = ['omega/games/gr1.py', 'omega/symbolic/fixpoint.py']
FUNCS = ['gr1.solve_rabin_game', 'gr1._cycle_inside', 'gr1._attractor_inside', 'fixpoint.step',
         'gr1.solve_streett_game', 'gr1.trivial_winning_set']
MODES = c01.MODES
SOLVER_MS = 900000 * int(os.environ.get('VERIF_Z3_SCALE', '1'))


def make_dual(aut):
    """Opponent's game: roles swapped, Moore<->Mealy, strict<->non-strict,
    <>[] := [~ goal_j], []<> := [~ hold_k].  Same manager as `aut`."""
    import omega.symbolic.temporal as trl
    dual = trl.Automaton()
    dual.bdd = aut.bdd
    dual.vars = aut.vars
    dual.varlist = dict(env=list(aut.varlist['sys']), sys=list(aut.varlist['env']))
    dual.init['env'] = dual.true
    dual.init['sys'] = dual.true
    dual.action['env'] = aut.action['sys']
    dual.action['sys'] = aut.action['env']
    dual.win['<>[]'] = [~ g for g in aut.win['[]<>']]
    dual.win['[]<>'] = [~ h for h in aut.win['<>[]']]
    dual.moore = not aut.moore
    dual.plus_one = not aut.plus_one
    dual.qinit = '\\A \\A'
    dual.prime_varlists()
    return dual


def replay_duality(shape, moore, plus_one, values):
    """On one member: Streett region and Rabin region of the dual must be
    complementary; the explicit solver says which of the two is wrong."""
    import omega.games.gr1 as gr1
    from vlib import bdd2smt, family, xplay
    aut, params = family.build(shape, moore, plus_one)
    c01.concrete_member(aut, {p: values[p] for p in params})
    ex = family.Explicit(aut, bdd2smt.Exporter(aut.bdd))
    E, S, goals, holds, truth = c01.concrete_tables(aut, ex)
    zS, _, _ = gr1.solve_streett_game(aut)
    dual = make_dual(aut)
    zk, _, _ = gr1.solve_rabin_game(dual)
    zR = zk[-1]
    want = xplay.solve(ex.X, ex.Y, lambda s, a, b: E[s, a, b], lambda s, a, b: S[s, a, b],
                       goals, holds, moore, plus_one, 'streett')
    out = []
    for s in ex.S:
        a, b = truth(zS, s), truth(zR, s)
        if a == b:
            who = 'streett' if a != want[s] else 'rabin(dual)'
            out.append((ex.state_values(s), f'streett={a} rabin_dual={b} explicit streett={want[s]}: {who} solver wrong'))
    return out


def duality(shape, moore, plus_one):
    import z3
    import omega.games.gr1 as gr1
    from vlib import bdd2smt, family
    t0 = time.time()
    aut, params = family.build(shape, moore, plus_one)
    zS, _, _ = gr1.solve_streett_game(aut)
    aut2, params2 = family.build(shape, moore, plus_one)   # separate manager
    assert aut2.bdd is not aut.bdd and params2 == params
    dual = make_dual(aut2)
    zk, _, _ = gr1.solve_rabin_game(dual)
    zR = zk[-1]
    t_real = time.time() - t0
    bits = bdd2smt.Bits()
    e1 = bdd2smt.Exporter(aut.bdd, bits)
    e2 = bdd2smt.Exporter(aut2.bdd, bits)
    ex1 = family.Explicit(aut, e1)
    ex2 = family.Explicit(aut2, e2, env_vars=aut.varlist['env'], sys_vars=aut.varlist['sys'])
    tS = ex1.pred_table(zS)
    tR = ex2.pred_table(zR)
    out = []
    name0 = f'duality {shape} moore={moore} plus_one={plus_one}'
    sample = dict(shape=shape, moore=moore, plus_one=plus_one, constants=len(params),
                  streett_nodes=len(zS), rabin_dual_nodes=len(zR), rabin_outer_iterates=len(zk),
                  real_solvers_s=round(t_real, 2))
    sol = z3.Solver()
    sol.add(z3.Or([tS[s] for s in ex1.S]), z3.Or([tR[s] for s in ex1.S]))
    nontrivial = str(sol.check()) == 'sat'
    for s in ex1.S:
        sol = z3.Solver()
        sol.set('timeout', SOLVER_MS)
        sol.add(tS[s] == tR[s])
        t1 = time.time()
        r = str(sol.check())
        dt = time.time() - t1
        name = f'{name0} state={ex1.state_values(s)}'
        if r == 'unsat':
            out.append(core.res(name, 'holds', queries={r: 1}, solver_s=dt, sample=sample,
                                nontrivial=nontrivial, functions=FUNCS))
        elif r == 'sat':
            vals = family.model_params(sol.model(), params, bits, aut.vars)
            diffs = replay_duality(shape, moore, plus_one, vals)
            if diffs:
                out.append(core.res(
                    name, 'violation', queries={r: 1}, solver_s=dt, sample=sample, nontrivial=True,
                    functions=FUNCS, signature=f'duality:{"moore" if moore else "mealy"}:'
                    f'{"plus_one" if plus_one else "stepwise"}',
                    detail=f'member {c01._describe(vals, params)} of {shape}: {diffs[0]}',
                    cex=dict(kind='duality', shape=shape, moore=moore, plus_one=plus_one, values=vals)))
            else:
                out.append(core.res(name, 'inconclusive', queries={r: 1}, solver_s=dt, sample=sample,
                                    detail='duality counterexample did not reproduce on the member'))
        else:
            out.append(core.res(name, 'inconclusive', queries={r: 1}, solver_s=dt, sample=sample,
                                detail=f'solver answered {r}'))
    return out


def trivial_set(shape, moore, plus_one):
    """gr1.trivial_winning_set = streett region /\\ ~ rabin region of its documented
    construction (roles swapped, []<> := [~hold], <>[] := [TRUE], Moore, plus_one)."""
    import z3
    import omega.games.gr1 as gr1
    from vlib import bdd2smt, family, xref
    aut, params = family.build(shape, moore, plus_one)
    triv, _ = gr1.trivial_winning_set(aut)
    exp = bdd2smt.Exporter(aut.bdd)
    ex = family.Explicit(aut, exp)
    E = ex.action_table(aut.action['env'])
    S = ex.action_table(aut.action['sys'])
    goals = [ex.pred_table(g) for g in aut.win['[]<>']]
    holds = [ex.pred_table(h) for h in aut.win['<>[]']]
    A = xref.Z3Alg()
    g1 = xref.Game(A, ex.X, ex.Y, lambda s, a, b: E[s, a, b], lambda s, a, b: S[s, a, b], moore, plus_one)
    zs = g1.streett(goals, holds)
    # swapped roles: "env" of the swapped game is y; a swapped state is y + x
    nx = len(ex.xbits)

    def sw(t):
        return t[len(ex.ybits):] + t[:len(ex.ybits)]   # (y + x) -> (x + y)
    g2 = xref.Game(A, ex.Y, ex.X,
                   lambda s, a, b: S[sw(s), b, a], lambda s, a, b: E[sw(s), b, a], True, True)
    ngoals = [{s: A.not_(h[sw(s)]) for s in g2.S} for h in holds]
    zr = g2.rabin(ngoals, [g2.const(True)])
    tt = ex.pred_table(triv)
    out = []
    for s in ex.S:
        want = A.and_([zs[s], A.not_(zr[s[nx:] + s[:nx]])])
        sol = z3.Solver()
        sol.set('timeout', SOLVER_MS)
        sol.add(tt[s] != want)
        t1 = time.time()
        r = str(sol.check())
        dt = time.time() - t1
        name = f'trivial_winning_set {shape} moore={moore} plus_one={plus_one} state={ex.state_values(s)}'
        sample = dict(shape=shape, moore=moore, plus_one=plus_one, constants=len(params))
        if r == 'unsat':
            out.append(core.res(name, 'holds', queries={r: 1}, solver_s=dt, sample=sample,
                                nontrivial=True, functions=FUNCS))
        elif r == 'sat':
            vals = family.model_params(sol.model(), params, exp.bits, aut.vars)
            # replay: real function on the member vs concrete references
            aut_c, _ = family.build(shape, moore, plus_one)
            c01.concrete_member(aut_c, vals)
            exc = family.Explicit(aut_c, bdd2smt.Exporter(aut_c.bdd))
            Ec, Sc, gc, hc, truth = c01.concrete_tables(aut_c, exc)
            triv_c, _ = gr1.trivial_winning_set(aut_c)
            P = xref.PyAlg
            h1 = xref.Game(P, exc.X, exc.Y, lambda s, a, b: Ec[s, a, b], lambda s, a, b: Sc[s, a, b], moore, plus_one)
            zs_c = h1.streett(gc, hc)
            h2 = xref.Game(P, exc.Y, exc.X, lambda s, a, b: Sc[sw(s), b, a], lambda s, a, b: Ec[sw(s), b, a], True, True)
            zr_c = h2.rabin([{t: not h[sw(t)] for t in h2.S} for h in hc], [h2.const(True)])
            bad = [exc.state_values(t) for t in exc.S
                   if truth(triv_c, t) != (zs_c[t] and not zr_c[t[nx:] + t[:nx]])]
            if bad:
                out.append(core.res(name, 'violation', queries={r: 1}, solver_s=dt, sample=sample,
                                    nontrivial=True, functions=FUNCS, signature='trivial_winning_set',
                                    detail=f'member {c01._describe(vals, params)}: differs at {bad[:2]}',
                                    cex=dict(kind='trivial', shape=shape, moore=moore, plus_one=plus_one, values=vals)))
            else:
                out.append(core.res(name, 'inconclusive', queries={r: 1}, solver_s=dt, sample=sample,
                                    detail='counterexample did not reproduce'))
        else:
            out.append(core.res(name, 'inconclusive', queries={r: 1}, solver_s=dt, sample=sample,
                                detail=f'solver answered {r}'))
    return out


def replay(payload):
    c = payload['cex']
    if c['kind'] == 'member':
        return c01.replay(payload)
    if c['kind'] == 'duality':
        d = replay_duality(c['shape'], c['moore'], c['plus_one'], c['values'])
        return bool(d), f'{d[:2]}'
    return False, 'replay of trivial_winning_set counterexamples: re-run the check'


def run(tier, seed, t0, only=None):
    tasks = []
    for shape, be, split in c01.shapes_for(tier, 'rabin'):
        for moore, plus_one in MODES:
            for part in (range(split) if split else [None]):
                tasks.append(dict(mod='vlib.props.c01', fn='family_region',
                                  kw=dict(shape=shape, moore=moore, plus_one=plus_one, objective='rabin',
                                          state_idx=None if part is None else [part]),
                                  backend=be, timeout=12000,
                                  name=f'{be}:rabin:{shape}:moore={moore}:plus_one={plus_one}'
                                       + ('' if part is None else f':state{part}')))
    # history: the same Automaton solved again after every variable was re-assigned to the component in place
    for shape in (['S11'] if tier == 'quick' else ['S11', 'S11h2', 'B11a']):
        for moore, plus_one in MODES:
            tasks.append(dict(mod='vlib.props.c01', fn='family_region',
                              kw=dict(shape=shape, moore=moore, plus_one=plus_one, objective='rabin', resolve=True),
                              timeout=12000, name=f'cudd:rabin:{shape}:re-solve:moore={moore}:plus_one={plus_one}'))
    dshapes = ['B11a', 'S11', 'S11h2', 'S11g2', 'B02', 'T11b'] if tier == 'quick' else ['B11a', 'B11b', 'S11', 'S11h2', 'S11g2', 'B02', 'T11b', 'T11']
    for shape in dshapes:
        for moore, plus_one in MODES:
            tasks.append(dict(mod='vlib.props.c04', fn='duality', kw=dict(shape=shape, moore=moore, plus_one=plus_one),
                              timeout=12000, name=f'cudd:duality:{shape}:moore={moore}:plus_one={plus_one}'))
    for shape in (['S11'] if tier == 'quick' else ['S11', 'B11a', 'S11h2']):
        for moore, plus_one in MODES:
            tasks.append(dict(mod='vlib.props.c04', fn='trivial_set', kw=dict(shape=shape, moore=moore, plus_one=plus_one),
                              timeout=12000, name=f'cudd:trivial:{shape}:moore={moore}:plus_one={plus_one}'))
    nmem = 48 if tier == 'quick' else 600
    for shape in ('S11g2', 'S11g3', 'S11g2h2', 'B11a'):
        for moore, plus_one in MODES:
            sds = [seed * 100000 + i for i in range(nmem)]
            for i in range(0, nmem, 48):
                tasks.append(dict(mod='vlib.props.c01', fn='member_instances',
                                  kw=dict(shape=shape, moore=moore, plus_one=plus_one, objective='rabin', seeds=sds[i:i + 48]),
                                  timeout=3000, name=f'cudd:rabin:members:{shape}:moore={moore}:plus_one={plus_one}[{i}]'))
    tasks.append(dict(mod='vlib.props.c01', fn='validate_reference', kw=dict(seed=seed * 100 + 7, n=10 if tier == 'quick' else 100),
                      timeout=3000, name='xref-validation'))
    if only:
        tasks = [t for t in tasks if only in t['name']]
    results = core.run_tasks(tasks)
    return core.finish(
        PID, tier, seed, 'model_checking', results, t0, files=FILES,
        bounds=dict(families=[f'{s}@{b}' for s, b, _ in c01.shapes_for(tier, 'rabin')], duality_families=dshapes,
                    modes=4, unrolling='|states|+2', solver_timeout_ms=SOLVER_MS),
        rule='(a) per (family, mode, state): exported Rabin region vs unrolled reference; (b) per (family, mode, '
             'state): exported Streett region of the game vs exported Rabin region of the dual solved in a separate '
             'BDD manager must be complementary; (c) trivial_winning_set vs composed references. Non-trivial = '
             'some member has a non-empty, non-full region',
        assumptions=['z3', 'dd node accessors', 'family run pointwise (DESIGN.md 2.4)',
                     'reference validated against an independent Zielonka solver on every run'],
        outside=['more than 2-3 state bits per family in table form'])
