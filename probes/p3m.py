import sys, itertools, time, z3
import omega.symbolic.fixpoint as fx, omega.symbolic.prime as prm
import omega.games.gr1 as gr1
from p3 import build
from p1 import export
from p3z import ref_streett, S
which = sys.argv[1]
if which == 'swapq':
    def step(env_action, sys_action, target, aut):
        u = prm.prime(target, aut)
        if aut.plus_one:
            u |= ~ env_action; u &= sys_action
        else:
            u &= sys_action; u |= ~ env_action
        yp = aut.varlist["sys'"]; xp = aut.varlist["env'"]
        if not aut.moore:   # MUTANT: swapped
            u = aut.forall(xp, u); u = aut.exist(yp, u)
        else:
            u = aut.exist(yp, u); u = aut.forall(xp, u)
        return u
    fx.step = step
elif which == 'trapinit':
    orig = fx.trap
    def trap(env_action, sys_action, safe, aut, unless=None):
        q = safe  # MUTANT: start from safe (docs says wrong when unless given)
        qold = None
        while q != qold:
            qold = q
            pre = fx.step(env_action, sys_action, q, aut)
            q = safe & pre
            if unless is not None: q |= unless
        return q
    fx.trap = trap
for moore, plus_one in itertools.product([True, False], repeat=2):
    aut, allp = build(moore, plus_one, 1, 1, True)
    z, _, _ = gr1.solve_streett_game(aut)
    bits = {}; bvf = lambda n: bits.setdefault(n, z3.Bool(n))
    e = export(z, aut.bdd, {}, bvf)
    Z = ref_streett(moore, plus_one, 1, 1, True)
    x, y = bvf('x'), bvf('y')
    ref = z3.Or([z3.And(x == bool(s[0]), y == bool(s[1]), Z[s]) for s in S])
    sol = z3.Solver(); sol.add(e != ref)
    t0 = time.time(); r = sol.check()
    print(which, moore, plus_one, r, f'{time.time()-t0:.1f}s', flush=True)
