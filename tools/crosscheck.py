#!/usr/bin/env python3
"""Second opinion on a sample of obligations: the same SMT-LIB text is decided by z3 (wheel 5.1.0) and by
cvc5 (wheel 1.4.0); any disagreement is printed and makes the script exit 1.

    .venv/bin/python tools/crosscheck.py            (run from /verif; about a minute)

Sample: C06 circuit-vs-reference obligations for every arithmetic operator on three declaration pairs,
C11 controllable-predecessor family obligations (pure Boolean), C09/C10 box queries (propositional).
"""
import itertools
import os
import sys
import time

sys.path.insert(0, os.path.dirname(os.path.dirname(os.path.abspath(__file__))))
import logging
logging.disable(logging.CRITICAL)
import z3
import cvc5


def cvc5_check(smt2, timeout_ms=120000):
    tm = cvc5.TermManager() if hasattr(cvc5, 'TermManager') else None
    slv = cvc5.Solver(tm) if tm is not None else cvc5.Solver()
    slv.setOption('tlimit-per', str(timeout_ms))
    parser = cvc5.InputParser(slv)
    parser.setStringInput(cvc5.InputLanguage.SMT_LIB_2_6, smt2, 'obligation')
    sm = parser.getSymbolManager()
    res = None
    while True:
        cmd = parser.nextCommand()
        if cmd.isNull():
            break
        out = cmd.invoke(slv, sm)
        if out.strip() in ('sat', 'unsat', 'unknown'):
            res = out.strip()
    return res


def obligations():
    import omega.logic.bitvector as bv
    import omega.symbolic.fol as fol
    from vlib import bdd2smt, sem, coverlib
    from vlib.props import c06, c09
    # C06
    for op in '+-*/%':
        for dx, dy in [((0, 6), (-3, 4)), ((-8, -1), (0, 30)), ((0, 1), (-16, 15))]:
            case = dict(name='x', decl=dict(x=dx, y=dy, r=(-600, 600)),
                        tree=('cmp', '=', ('arith', op, ('var', 'x', False), ('var', 'y', False)), ('var', 'r', False)))
            ctx = c06._mk_ctx(case['decl'])
            s, defs, tree = c06._strings(case)
            bits = bdd2smt.Bits()
            circ = bdd2smt.slugsin2smt(bv.bitblast(s, ctx.vars), bits)
            ref, defined = sem.to_z3(tree, sem.Env(ctx.vars, bits))
            sol = z3.Solver()
            sol.add(defined, circ != ref)
            yield f'C06 {op} {dx} {dy}', sol
    # C09: minimality queries on three functions of four two-valued variables
    for mask in (0b1101010010011011, 0b0110100110010110, 0b1111011001101111):
        inst = c09.instance('mask', 'b4', (mask, None))
        ctx, names, ranges, pts, f, care, desc = c09.build(inst)
        F = coverlib.truth_table(ctx, f, names, pts)
        CARE = coverlib.truth_table(ctx, care, names, pts)
        for k in (3, 4, 5):
            on = [p for p in pts if F[p]]
            bad = [p for p in pts if CARE[p] and not F[p]]
            bx = coverlib.BoxVars(k, names, ranges)
            sol = z3.Solver()
            sol.add(*bx.wellformed())
            sol.add(*bx.implicants(bad))
            sol.add(*bx.covers(on))
            yield f'C09 mask {mask:b} k={k}', sol
    # C11: step family on S11, all modes, first two states
    import omega.symbolic.fixpoint as fx
    from vlib import family, xref
    for moore, plus_one in itertools.product([True, False], repeat=2):
        aut, params = family.build('S11', moore, plus_one)
        P = aut.win['[]<>'][0]
        r = fx.step(aut.action['env'], aut.action['sys'], P, aut)
        exp = bdd2smt.Exporter(aut.bdd)
        ex = family.Explicit(aut, exp)
        E = ex.action_table(aut.action['env'])
        S = ex.action_table(aut.action['sys'])
        Pt = ex.pred_table(P)
        game = xref.Game(xref.Z3Alg(), ex.X, ex.Y, lambda s, a, b: E[s, a, b], lambda s, a, b: S[s, a, b], moore, plus_one)
        ref = game.cpre(Pt)
        rt = ex.pred_table(r)
        for s in ex.S[:2]:
            sol = z3.Solver()
            sol.add(rt[s] != ref[s])
            yield f'C11 step S11 moore={moore} plus_one={plus_one} state={s}', sol


def main():
    bad = 0
    n = 0
    t0 = time.time()
    for name, sol in obligations():
        a = str(sol.check())
        smt2 = '(set-logic ALL)\n' + sol.to_smt2()
        b = cvc5_check(smt2)
        n += 1
        flag = 'ok' if a == b else 'DISAGREE'
        if a != b:
            bad += 1
        print(f'{flag:8s} z3={a:6s} cvc5={b}  {name}')
    print(f'{n} obligations, {bad} disagreement(s), {time.time() - t0:.1f}s')
    return 1 if bad else 0


if __name__ == '__main__':
    sys.exit(main())
