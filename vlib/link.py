"""Integers and their bits, written down from the statement of C06/C18:
two's complement, constant sign bit omitted for sign-definite hints.

Reads only `vars[x]['type'|'bitnames'|'signed'|'dom']`.
"""
import z3

W = 64  # width of the arithmetic oracle (wider than 2 * ALU_BITWIDTH)


def shape(d):
    """'bool' | 'signed' | 'unsigned' | 'negative'."""
    if d['type'] == 'bool':
        return 'bool'
    if d['signed']:
        return 'signed'
    lo, hi = d['dom']
    if lo >= 0:
        return 'unsigned'
    return 'negative'


def rep_range(d):
    """Least and greatest representable value of declaration `d`."""
    w = len(d['bitnames'])
    sh = shape(d)
    if sh == 'signed':
        return -2**(w - 1), 2**(w - 1) - 1
    if sh == 'unsigned':
        return 0, 2**w - 1
    return -2**w, -1


def bits_of(name, d, primed=False):
    p = "'" if primed else ''
    if d['type'] == 'bool':
        return [name + p]
    return [b + p for b in d['bitnames']]


def bv_of(name, d, bits, primed=False, width=W):
    """z3 BitVec(width) term for integer `name` as a function of its bits."""
    bn = bits_of(name, d, primed)
    w = len(bn)
    one = z3.BitVecVal(1, 1)
    zero = z3.BitVecVal(0, 1)
    parts = [z3.If(bits(b), one, zero) for b in reversed(bn)]
    v = z3.Concat(*parts) if len(parts) > 1 else parts[0]
    sh = shape(d)
    if sh == 'signed':
        return z3.SignExt(width - w, v)
    v = z3.ZeroExt(width - w, v)
    if sh == 'negative':
        v = v - z3.BitVecVal(2**w, width)
    return v


def int_of(name, d, bits, primed=False):
    """z3 Int term for integer `name` as a function of its bits."""
    bn = bits_of(name, d, primed)
    w = len(bn)
    sh = shape(d)
    terms = [z3.If(bits(b), 2**i, 0) for i, b in enumerate(bn)]
    if sh == 'signed':
        terms[-1] = z3.If(bits(bn[-1]), -2**(w - 1), 0)
    s = z3.Sum(terms) if len(terms) > 1 else terms[0]
    if sh == 'negative':
        s = s - 2**w
    return s


def value_to_bits(name, d, value, primed=False):
    """Concrete bit assignment of representable `value` (dict bit -> bool)."""
    if d['type'] == 'bool':
        return {bits_of(name, d, primed)[0]: bool(value)}
    lo, hi = rep_range(d)
    assert lo <= value <= hi, (name, value, lo, hi)
    bn = bits_of(name, d, primed)
    w = len(bn)
    sh = shape(d)
    if sh == 'negative':
        u = value + 2**w
    elif sh == 'signed':
        u = value % 2**w
    else:
        u = value
    return {b: bool((u >> i) & 1) for i, b in enumerate(bn)}


def bits_to_value(name, d, assignment, primed=False):
    """Concrete value from a bit assignment (dict bit -> bool)."""
    bn = bits_of(name, d, primed)
    if d['type'] == 'bool':
        return bool(assignment[bn[0]])
    w = len(bn)
    u = sum((1 << i) for i, b in enumerate(bn) if assignment[b])
    sh = shape(d)
    if sh == 'signed':
        return u - 2**w if u >= 2**(w - 1) else u
    if sh == 'negative':
        return u - 2**w
    return u


def model_values(model, table, bits, names=None, primed=False):
    """Concrete values of the declared identifiers in a z3 model."""
    out = {}
    for name, d in table.items():
        if names is not None and name not in names:
            continue
        a = {}
        for b in bits_of(name, d, primed):
            v = model.eval(bits(b), model_completion=True)
            a[b] = z3.is_true(v)
        out[name + ("'" if primed else '')] = bits_to_value(name, d, a, primed)
    return out
