"""Independent explicit-state game solver (no BDDs, no mu-calculus formula of
GR(1)): the game of a mode is expanded into a turn-based arena, the
Streett(1)/Rabin(1) objective is turned into a 3/4-colour parity objective by
two round-robin counters, and Zielonka's recursive algorithm solves it.

A game is given concretely:
  X, Y      lists of environment / component valuations (tuples); a state is x + y
  env(s, xp, yp) -> bool,  sys(s, xp, yp) -> bool
  goals, holds: lists of dict state -> bool
  moore, plus_one

Semantics of a step from state s (this is the reading of the modes used by
the reference, written here once and operationally):
  Moore: the component picks yp, then the environment picks xp.
  Mealy: the environment picks xp, then the component picks yp.
  plus_one (strict):  if not sys(s,xp,yp): component loses
                      elif not env(s,xp,yp): component wins
  not plus_one:       if not env(s,xp,yp): component wins
                      elif not sys(s,xp,yp): component loses
  otherwise the play continues from xp + yp.
"""
import sys as _sys

_sys.setrecursionlimit(10000)


def zielonka(nodes, owner, color, succ):
    """Max-parity game, player 0 wins even. Returns set of nodes won by 0.
    Every node must have a successor."""
    pred = {n: [] for n in nodes}
    for n in nodes:
        for m in succ[n]:
            pred[m].append(n)

    def attr(sub, target, player):
        a = set(target)
        cnt = {}
        queue = list(target)
        while queue:
            m = queue.pop()
            for n in pred[m]:
                if n not in sub or n in a:
                    continue
                if owner[n] == player:
                    a.add(n)
                    queue.append(n)
                else:
                    c = cnt.get(n)
                    if c is None:
                        c = sum(1 for k in succ[n] if k in sub)
                    c -= 1
                    cnt[n] = c
                    if c == 0:
                        a.add(n)
                        queue.append(n)
        return a

    def solve(sub):
        if not sub:
            return set(), set()
        d = max(color[n] for n in sub)
        p = d % 2
        u = {n for n in sub if color[n] == d}
        a = attr(sub, u, p)
        w = solve(sub - a)
        if not w[1 - p]:
            res = [set(), set()]
            res[p] = set(sub)
            return tuple(res)
        b = attr(sub, w[1 - p], 1 - p)
        w2 = solve(sub - b)
        res = [set(), set()]
        res[p] = w2[p]
        res[1 - p] = w2[1 - p] | b
        return tuple(res)

    return solve(set(nodes))[0]


def solve(X, Y, env, sys, goals, holds, moore, plus_one, objective):
    """Return dict state -> bool: the component wins from the state.

    objective: 'streett' (<>[] some hold \\/ []<> every goal) or
               'rabin'   (<>[] some hold /\\ []<> every goal)."""
    S = [x + y for x in X for y in Y]
    ng, nh = len(goals), len(holds)
    WIN, LOSE = ('win',), ('lose',)
    nodes, owner, color, succ = [], {}, {}, {}

    def add(n, o, c, ss):
        nodes.append(n)
        owner[n] = o
        color[n] = c
        succ[n] = ss

    if objective == 'streett':
        cG, cF, c0, cwin, close = 2, 1, 0, 0, 1
    else:
        cG, cF, c0, cwin, close = 2, 3, 1, 2, 3
    add(WIN, 0, cwin, [WIN])
    add(LOSE, 0, close, [LOSE])

    def outcome(s, xp, yp, i, k):
        e = env(s, xp, yp)
        c = sys(s, xp, yp)
        if plus_one:
            if not c:
                return LOSE
            if not e:
                return WIN
        else:
            if not e:
                return WIN
            if not c:
                return LOSE
        return ('s', xp + yp, i, k)

    for s in S:
        for i in range(ng):
            for k in range(nh):
                # counters: i = goal awaited, k = hold whose violation is awaited
                gi = goals[i][s]
                fk = not holds[k][s]
                i2 = (i + 1) % ng if gi else i
                k2 = (k + 1) % nh if fk else k
                G = gi and i2 == 0       # goal counter wraps
                F = fk and k2 == 0       # hold-violation counter wraps
                if objective == 'streett':
                    col = cG if G else (cF if F else c0)
                else:
                    col = cF if F else (cG if G else c0)
                n = ('s', s, i, k)
                if moore:
                    mids = []
                    for yp in Y:
                        m = ('m', s, i, k, yp)
                        add(m, 1, 0, [outcome(s, xp, yp, i2, k2) for xp in X])
                        mids.append(m)
                    add(n, 0, col, mids)
                else:
                    mids = []
                    for xp in X:
                        m = ('m', s, i, k, xp)
                        add(m, 0, 0, [outcome(s, xp, yp, i2, k2) for yp in Y])
                        mids.append(m)
                    add(n, 1, col, mids)
    # intermediate colour 0 is the minimum in both colourings, hence neutral
    w0 = zielonka(nodes, owner, color, succ)
    return {s: (('s', s, 0, 0) in w0) for s in S}


def solve_reach_safe(X, Y, env, sys, moore, plus_one, win_states, lose_states, must_reach):
    """Reachability / safety game on the same arena.

    States in `win_states` are won at once, states in `lose_states` lost at once;
    elsewhere the component must keep playing: forever (safety, must_reach False)
    or until a winning state / an environment violation (must_reach True)."""
    S = [x + y for x in X for y in Y]
    WIN, LOSE = ('win',), ('lose',)
    nodes, owner, color, succ = [], {}, {}, {}

    def add(n, o, c, ss):
        nodes.append(n)
        owner[n] = o
        color[n] = c
        succ[n] = ss
    add(WIN, 0, 2, [WIN])
    add(LOSE, 0, 1, [LOSE])
    col = 1 if must_reach else 0

    def outcome(s, xp, yp):
        e = env(s, xp, yp)
        c = sys(s, xp, yp)
        if plus_one:
            if not c:
                return LOSE
            if not e:
                return WIN
        else:
            if not e:
                return WIN
            if not c:
                return LOSE
        return ('s', xp + yp)

    for s in S:
        n = ('s', s)
        if win_states[s]:
            add(n, 0, 2, [WIN])
            continue
        if lose_states[s]:
            add(n, 0, 1, [LOSE])
            continue
        mids = []
        if moore:
            for yp in Y:
                m = ('m', s, yp)
                add(m, 1, 0, [outcome(s, xp, yp) for xp in X])
                mids.append(m)
            add(n, 0, col, mids)
        else:
            for xp in X:
                m = ('m', s, xp)
                add(m, 0, 0, [outcome(s, xp, yp) for yp in Y])
                mids.append(m)
            add(n, 1, col, mids)
    w0 = zielonka(nodes, owner, color, succ)
    return {s: (('s', s) in w0) for s in S}
