"""./check <Cxx> [--tier quick|thorough] [--replay file]"""
import argparse
import importlib
import json
import os
import sys
import time

from vlib import core


def main():
    ap = argparse.ArgumentParser()
    ap.add_argument('pid')
    ap.add_argument('--tier', default=os.environ.get('VERIF_TIER') or 'quick',
                    choices=['quick', 'thorough'])
    ap.add_argument('--replay')
    ap.add_argument('--only', default=None, help='substring filter on task names (debugging)')
    a = ap.parse_args()
    pid = a.pid.upper()
    seed = int(os.environ.get('VERIF_SEED') or 0)
    if a.tier == 'thorough':
        # longer z3 budget per query for the nested-fixpoint obligations (read at import by the task processes)
        os.environ.setdefault('VERIF_Z3_SCALE', '3')
    try:
        mod = importlib.import_module('vlib.props.' + pid.lower())
    except ModuleNotFoundError as e:
        print(f'no check for {pid}: {e}', file=sys.stderr)
        return core.EXIT_INCONCLUSIVE
    if a.replay:
        with open(a.replay) as f:
            payload = json.load(f)
        core.force_backend(payload.get('backend') or 'cudd')
        ok, msg = mod.replay(payload)
        print(msg)
        if ok:
            print(f'VIOLATION property={pid} replay={a.replay}')
            return core.EXIT_VIOLATION
        print('replay did not reproduce a violation')
        return core.EXIT_OK
    t0 = time.time()
    return mod.run(a.tier, seed, t0, only=a.only)


if __name__ == '__main__':
    sys.exit(main())
