import time, z3, itertools, sys
import omega.logic.bitvector as bv

def slugs_to_z3(s, bitvar):
    toks = s.split()
    pos = [0]
    def rec(mem):
        t = toks[pos[0]]; pos[0] += 1
        if t == '!': return z3.Not(rec(mem))
        if t in ('&', '|', '^'):
            a = rec(mem); b = rec(mem)
            return {'&': z3.And, '|': z3.Or, '^': z3.Xor}[t](a, b)
        if t == '$':
            n = int(toks[pos[0]]); pos[0] += 1
            m = []
            for i in range(n):
                m.append(rec(m))
            return m[-1]
        if t == '?':
            i = int(toks[pos[0]]); pos[0] += 1
            return mem[i]
        if t == '0': return z3.BoolVal(False)
        if t == '1': return z3.BoolVal(True)
        if t in ('\\A', '\\E'):
            raise NotImplementedError
        return bitvar(t)
    r = rec(None)
    assert pos[0] == len(toks), (pos, len(toks))
    return r

def tdiv(a, b):  # C99 truncation
    q = z3.If(b > 0, a / b, -(a / -b))  # z3 int div: floor for b>0? Euclidean
    # Euclidean: a = b*q + r, 0<=r<|b|
    # trunc: sign(a)sign(b) * (|a| div |b|)
    A = z3.If(a >= 0, a, -a); B = z3.If(b >= 0, b, -b)
    m = A / B
    return z3.If((a >= 0) == (b >= 0), m, -m)
def tmod(a, b):
    return a - b * tdiv(a, b)

def link(name, X, t, bitvar):
    d = t[name]; w = d['width']; bn = d['bitnames']
    if d['signed']:
        s = z3.Sum([z3.If(bitvar(b), 2**i, 0) for i, b in enumerate(bn[:-1])] + [z3.IntVal(0)]) - z3.If(bitvar(bn[-1]), 2**(w-1), 0)
    else:
        s = z3.Sum([z3.If(bitvar(b), 2**i, 0) for i, b in enumerate(bn)] + [z3.IntVal(0)])
        if d['dom'][0] < 0:
            s = s - 2**w
    return X == s

def main():
    doms = [(0,1),(0,6),(-3,4),(-8,-1),(0,30),(-16,15), (0,63)]
    ops = sys.argv[1:] or ['+','-','*','/','%']
    for op in ops:
      for dx, dy in itertools.product(doms, doms):
        t = bv.bitblast_table(dict(x=dict(type='int', dom=dx), y=dict(type='int', dom=dy), r=dict(type='int', dom=(-2000, 2000))))
        f = f'(x {op} y) = r'
        try:
            s = bv.bitblast(f, t)
        except Exception as e:
            print(op, dx, dy, 'EXC', type(e).__name__, str(e)[:80]); continue
        bits = {}
        bvf = lambda n: bits.setdefault(n, z3.Bool(n))
        e = slugs_to_z3(s, bvf)
        X, Y, R = z3.Ints('X Y R')
        sol = z3.Solver()
        sol.set('timeout', 60000)
        sol.add(link('x', X, t, bvf), link('y', Y, t, bvf), link('r', R, t, bvf))
        if op in '/%': sol.add(Y != 0)
        ref = {'+': X+Y, '-': X-Y, '*': X*Y, '/': tdiv(X,Y), '%': tmod(X,Y)}[op] == R
        sol.add(e != ref)
        t0 = time.time()
        r = sol.check()
        msg = ''
        if str(r) == 'sat':
            m = sol.model(); msg = f'X={m[X]} Y={m[Y]} R={m[R]} circuit={m.eval(e)}'
        print(op, dx, dy, r, f'{time.time()-t0:.2f}s', msg)

if __name__ == "__main__":
    main()
