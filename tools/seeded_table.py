#!/usr/bin/env python3
"""Regenerate the table of DESIGN.md section 9 from seeded/*/meta.json."""
import glob
import json
import os
import re

HERE = os.path.dirname(os.path.dirname(os.path.abspath(__file__)))
rows = ['| seeded change | property | what it needs to manifest | checks run (quick tier) |', '|---|---|---|---|']
for p in sorted(glob.glob(os.path.join(HERE, 'seeded', '*', 'meta.json'))):
    m = json.load(open(p))
    runs = []
    for r in m.get('runs', []):
        verdict = 'caught (exit 1, %d VIOLATION)' % r['violations'] if r['exit'] == 1 else \
            ('MISSED (exit 0)' if r['exit'] == 0 else 'inconclusive (exit %d)' % r['exit'])
        runs.append(f'{r["check"]}: {verdict}')
    note = m.get('note', '')
    rows.append(f'| `{m["id"]}`: {m["change"]} | {m["property"]} | {m["needs_to_manifest"]} | {"; ".join(runs) or "not run yet"}{(" — " + note) if note else ""} |')
table = '\n'.join(rows)
dp = os.path.join(HERE, 'DESIGN.md')
s = open(dp).read()
if 'SEEDED_TABLE' in s:
    s = s.replace('SEEDED_TABLE', '<!-- SEEDED:BEGIN -->\n' + table + '\n<!-- SEEDED:END -->')
else:
    s = re.sub(r'<!-- SEEDED:BEGIN -->.*<!-- SEEDED:END -->', lambda _: '<!-- SEEDED:BEGIN -->\n' + table + '\n<!-- SEEDED:END -->', s, flags=re.S)
open(dp, 'w').write(s)
print(len(rows) - 2, 'rows')
