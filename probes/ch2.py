import omega.logic.lexyacc as lexyacc
_p = lexyacc.Parser()
def parse_roundtrip(s: str) -> bool:
    """
    pre: 1 <= len(s) <= 3
    pre: all(c in 'ab&|~ ()' for c in s)
    post: _
    """
    try:
        t = _p.parse(s)
    except Exception:
        return True
    if t is None:
        return True
    u = _p.parse(t.flatten())
    return repr(u) == repr(t)
