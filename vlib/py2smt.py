"""A path-enumerating symbolic interpreter for a small Python subset -> z3.

Source comes from `inspect.getsource` of the function in /repo at run time.
Supported: int arithmetic (+ - * with at most one symbolic factor... exact Int),
comparisons (chained), and/or/not, max/min/abs, tuple build/unpack, subscripts of
dicts/tuples held by the interpreter, if/elif/else, assert, return, raise,
`x.bit_length()` and `2**n` as exact ite-ladders below `BOUND_BITS`, calls to
other supported functions of the same module (inlined), logging calls (ignored).
Anything else raises `Unsupported`, which the caller reports as inconclusive.

`run(func, args)` returns a list of paths `(condition, outcome)` where outcome
is ('return', value) or ('raise', exception name). Values are z3 Int/Bool terms,
Python constants, tuples or None.
"""
import ast
import inspect
import textwrap

import z3

BOUND_BITS = 16   # bit_length / 2**n ladders are exact for magnitudes < 2**16


class Unsupported(Exception):
    pass


def is_sym(v):
    return isinstance(v, z3.ExprRef)


def _bool(v):
    if isinstance(v, bool):
        return z3.BoolVal(v)
    if is_sym(v) and z3.is_bool(v):
        return v
    if isinstance(v, int):
        return z3.BoolVal(v != 0)
    if is_sym(v) and z3.is_int(v):
        return v != 0
    if v is None:
        return z3.BoolVal(False)
    raise Unsupported(f'truth value of {v!r}')


def bit_length(x):
    """Exact for |x| < 2**BOUND_BITS (callers assume that bound)."""
    if isinstance(x, int):
        return x.bit_length()
    a = z3.If(x >= 0, x, -x)
    r = z3.IntVal(BOUND_BITS)
    for k in range(BOUND_BITS - 1, -1, -1):
        r = z3.If(a < 2 ** k, z3.IntVal(k), r)
    return r


def pow2(n):
    if isinstance(n, int):
        return 2 ** n
    r = z3.IntVal(2 ** (2 * BOUND_BITS))
    for k in range(2 * BOUND_BITS - 1, -1, -1):
        r = z3.If(n == k, z3.IntVal(2 ** k), r)
    return r


class _Return(Exception):
    pass


class Interp:
    def __init__(self, func, module=None):
        self.func = func
        self.module = module or inspect.getmodule(func)
        src = textwrap.dedent(inspect.getsource(func))
        self.tree = ast.parse(src).body[0]
        assert isinstance(self.tree, ast.FunctionDef)

    def run(self, *args):
        params = [a.arg for a in self.tree.args.args]
        env = dict(zip(params, args))
        paths = []
        self._block(self.tree.body, env, z3.BoolVal(True), paths, top=True)
        return paths

    # statements: returns list of (env, cond) continuing states
    def _block(self, stmts, env, cond, paths, top=False):
        states = [(env, cond)]
        for st in stmts:
            nxt = []
            for e, c in states:
                nxt.extend(self._stmt(st, e, c, paths))
            states = nxt
            if not states:
                break
        if top:
            for e, c in states:
                paths.append((c, ('return', None)))
            return []
        return states

    def _stmt(self, st, env, cond, paths):
        if isinstance(st, ast.Expr):
            v = st.value
            if isinstance(v, ast.Constant):
                return [(env, cond)]          # docstring
            if isinstance(v, ast.Call) and self._is_logging(v):
                return [(env, cond)]
            self._expr(v, env)
            return [(env, cond)]
        if isinstance(st, ast.Assign):
            val = self._expr(st.value, env)
            env = dict(env)
            for tgt in st.targets:
                self._assign(tgt, val, env)
            return [(env, cond)]
        if isinstance(st, ast.AugAssign):
            cur = self._expr(st.target, env)
            val = self._binop(st.op, cur, self._expr(st.value, env))
            env = dict(env)
            self._assign(st.target, val, env)
            return [(env, cond)]
        if isinstance(st, ast.Return):
            val = None if st.value is None else self._expr(st.value, env)
            paths.append((cond, ('return', val)))
            return []
        if isinstance(st, ast.Raise):
            name = 'Exception'
            if st.exc is not None:
                f = st.exc.func if isinstance(st.exc, ast.Call) else st.exc
                name = getattr(f, 'id', 'Exception')
            paths.append((cond, ('raise', name)))
            return []
        if isinstance(st, ast.Assert):
            t = _bool(self._expr(st.test, env))
            t = z3.simplify(t)
            if z3.is_true(t):
                return [(env, cond)]
            paths.append((z3.And(cond, z3.Not(t)), ('raise', 'AssertionError')))
            if z3.is_false(t):
                return []
            return [(env, z3.And(cond, t))]
        if isinstance(st, ast.If):
            t = z3.simplify(_bool(self._expr(st.test, env)))
            out = []
            if not z3.is_false(t):
                out.extend(self._block(st.body, env, cond if z3.is_true(t) else z3.And(cond, t), paths))
            if not z3.is_true(t):
                c2 = cond if z3.is_false(t) else z3.And(cond, z3.Not(t))
                if st.orelse:
                    out.extend(self._block(st.orelse, env, c2, paths))
                else:
                    out.append((env, c2))
            return out
        if isinstance(st, ast.Pass):
            return [(env, cond)]
        raise Unsupported(f'statement {type(st).__name__} at line {st.lineno}')

    def _is_logging(self, call):
        f = call.func
        return (isinstance(f, ast.Attribute) and isinstance(f.value, ast.Name)
                and f.value.id in ('logger', 'log', 'logging')) or \
               (isinstance(f, ast.Name) and f.id == 'print')

    def _assign(self, tgt, val, env):
        if isinstance(tgt, ast.Name):
            env[tgt.id] = val
        elif isinstance(tgt, (ast.Tuple, ast.List)):
            if not isinstance(val, tuple) or len(val) != len(tgt.elts):
                raise Unsupported('unpacking')
            for t, v in zip(tgt.elts, val):
                self._assign(t, v, env)
        else:
            raise Unsupported(f'assignment target {type(tgt).__name__}')

    def _binop(self, op, a, b):
        if isinstance(op, ast.Add):
            return a + b
        if isinstance(op, ast.Sub):
            return a - b
        if isinstance(op, ast.Mult):
            return a * b
        if isinstance(op, ast.Pow):
            if a == 2:
                return pow2(b)
            if isinstance(a, int) and isinstance(b, int):
                return a ** b
            raise Unsupported('power')
        raise Unsupported(f'operator {type(op).__name__}')

    def _expr(self, e, env):
        if isinstance(e, ast.Constant):
            return e.value
        if isinstance(e, ast.Name):
            if e.id in env:
                return env[e.id]
            if hasattr(self.module, e.id):
                return getattr(self.module, e.id)
            raise Unsupported(f'name {e.id}')
        if isinstance(e, ast.Tuple):
            return tuple(self._expr(x, env) for x in e.elts)
        if isinstance(e, ast.JoinedStr):
            return '<fstring>'
        if isinstance(e, ast.UnaryOp):
            v = self._expr(e.operand, env)
            if isinstance(e.op, ast.USub):
                return -v
            if isinstance(e.op, ast.Not):
                return z3.Not(_bool(v))
            raise Unsupported('unary')
        if isinstance(e, ast.BinOp):
            return self._binop(e.op, self._expr(e.left, env), self._expr(e.right, env))
        if isinstance(e, ast.BoolOp):
            vs = [_bool(self._expr(v, env)) for v in e.values]
            return z3.And(vs) if isinstance(e.op, ast.And) else z3.Or(vs)
        if isinstance(e, ast.Compare):
            left = self._expr(e.left, env)
            parts = []
            for op, right in zip(e.ops, e.comparators):
                r = self._expr(right, env)
                parts.append(self._cmp(op, left, r))
                left = r
            return parts[0] if len(parts) == 1 else z3.And([_bool(p) for p in parts])
        if isinstance(e, ast.Subscript):
            base = self._expr(e.value, env)
            idx = self._expr(e.slice, env)
            if isinstance(base, (dict, tuple, list)):
                return base[idx]
            raise Unsupported('subscript of symbolic value')
        if isinstance(e, ast.Call):
            return self._call(e, env)
        if isinstance(e, ast.IfExp):
            t = _bool(self._expr(e.test, env))
            a, b = self._expr(e.body, env), self._expr(e.orelse, env)
            return z3.If(t, a, b)
        raise Unsupported(f'expression {type(e).__name__}')

    def _cmp(self, op, a, b):
        if isinstance(op, ast.Is):
            return a is b
        if isinstance(op, ast.IsNot):
            return a is not b
        for v in (a, b):
            if isinstance(v, bool) or (is_sym(v) and z3.is_bool(v)):
                raise Unsupported('comparison of Booleans')
        if isinstance(op, ast.Lt):
            return a < b
        if isinstance(op, ast.LtE):
            return a <= b
        if isinstance(op, ast.Gt):
            return a > b
        if isinstance(op, ast.GtE):
            return a >= b
        if isinstance(op, ast.Eq):
            return a == b
        if isinstance(op, ast.NotEq):
            return a != b
        raise Unsupported(f'comparison {type(op).__name__}')

    def _call(self, e, env):
        f = e.func
        args = [self._expr(a, env) for a in e.args]
        if isinstance(f, ast.Attribute) and f.attr == 'bit_length' and not args:
            return bit_length(self._expr(f.value, env))
        if isinstance(f, ast.Name):
            if f.id == 'abs':
                (x,) = args
                return abs(x) if isinstance(x, int) else z3.If(x >= 0, x, -x)
            if f.id in ('max', 'min'):
                r = args[0]
                for x in args[1:]:
                    if isinstance(r, int) and isinstance(x, int):
                        r = max(r, x) if f.id == 'max' else min(r, x)
                    else:
                        r = z3.If(r >= x, r, x) if f.id == 'max' else z3.If(r <= x, r, x)
                return r
            if f.id == 'int' and len(args) == 1:
                return args[0]
            target = getattr(self.module, f.id, None)
            if inspect.isfunction(target):
                paths = Interp(target, self.module).run(*args)
                rets = [(c, o[1]) for c, o in paths if o[0] == 'return']
                if len(rets) == 1 and len(paths) == 1:
                    return rets[0][1]
                raise Unsupported(f'inlined call to {f.id} with several paths')
        raise Unsupported(f'call {ast.dump(f)[:60]}')


def run(func, *args):
    return Interp(func).run(*args)
