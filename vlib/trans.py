"""Closed-loop obligations for synthesized implementations (C02 Streett, C05 Rabin).

Family level: the real constructor runs once on a rigid-table family with
`EnvInit := Win`, `qinit = \\A \\A`; `action['impl']`, `init['impl']` are exported
and the obligations below are discharged by z3 for every member at once.

  init       Init_impl /\\ EnvInit  =>  Win /\\ memory at its initial value
  safety     Inv /\\ impl [/\\ EnvNext if not plus_one]  =>  SysNext
  closure    Inv /\\ impl /\\ EnvNext  =>  Inv'
  nonblock   Inv  =>  Mealy: \\A x' \\E (y', mem') impl ;  Moore: \\E (y', mem') \\A x' impl
  moore-indep  impl does not depend on any primed environment bit (Moore only)
  liveness   no reachable cycle of impl /\\ EnvNext violates the acceptance condition
             (Emerson-Lei fair-cycle fixpoint unrolled on explicit product states)

with Inv := Win /\\ memory variables within their declared ranges.

`check_concrete` evaluates the same obligations on one concrete member by plain
enumeration (no z3); it is the replay oracle.
"""
import os
import itertools
import time

from vlib import core, link

SOLVER_MS = 900000 * int(os.environ.get('VERIF_Z3_SCALE', '1'))


def construct(aut, objective):
    """Real solver + real transducer constructor with EnvInit := Win."""
    import omega.games.gr1 as gr1
    if objective == 'streett':
        z, yij, xijk = gr1.solve_streett_game(aut)
        aut.init['env'] = z
        gr1.make_streett_transducer(z, yij, xijk, aut)
        mem = ['_goal']
        mem_init = {'_goal': 0}
    else:
        zk, yki, xkijr = gr1.solve_rabin_game(aut)
        z = zk[-1]
        aut.init['env'] = z
        gr1.make_rabin_transducer(zk, yki, xkijr, aut)
        aut._verif_iterates = (zk, yki)     # only used to classify a blocking state (known finding)
        mem = ['_hold', '_goal']
        mem_init = {'_hold': len(aut.win['<>[]']), '_goal': 0}
    return z, mem, mem_init


def mem_ranges(aut, objective):
    ng, nh = len(aut.win['[]<>']), len(aut.win['<>[]'])
    if objective == 'streett':
        return {'_goal': (0, ng - 1)}
    return {'_hold': (0, nh), '_goal': (0, ng - 1)}


# ---------------------------------------------------------------- concrete

def check_concrete(aut, z, objective, mem, mem_init, only=None):
    """Explicit evaluation of all obligations on a constant-free automaton.
    Returns list of (obligation, description)."""
    names = list(aut.varlist['env']) + list(aut.varlist['sys'])
    env_names = list(aut.varlist['env'])
    sys_names = list(aut.varlist['sys'])
    impl, init_impl = aut.action['impl'], aut.init['impl']
    env_a, sys_a, env_i = aut.action['env'], aut.action['sys'], aut.init['env']
    moore, plus_one = aut.moore, aut.plus_one
    rng = mem_ranges(aut, objective)

    def vals(n):
        d = aut.vars[n]
        if d['type'] == 'bool':
            return [False, True]
        lo, hi = link.rep_range(d)
        return list(range(lo, hi + 1))
    X = [dict(zip(env_names, v)) for v in itertools.product(*[vals(n) for n in env_names])]
    Y = [dict(zip(sys_names, v)) for v in itertools.product(*[vals(n) for n in sys_names])]
    M = [dict(zip(mem, v)) for v in itertools.product(*[vals(n) for n in mem])]
    cache = {}

    def truth(u, cur, nxt=None):
        key = (int(u), tuple(sorted(cur.items())), tuple(sorted(nxt.items())) if nxt else None)
        if key in cache:
            return cache[key]
        d = dict(cur)
        if nxt:
            d.update({k + "'": v for k, v in nxt.items()})
        sup = aut.support(u)
        d = {k: v for k, v in d.items() if k in sup}
        r = aut.let(d, u) if d else u
        assert r == aut.true or r == aut.false, ('not concrete', aut.support(r))
        cache[key] = (r == aut.true)
        return cache[key]

    P = [dict(x, **y, **m) for x in X for y in Y for m in M]
    inrange = lambda p: all(rng[n][0] <= p[n] <= rng[n][1] for n in mem)
    inv = [p for p in P if truth(z, p) and inrange(p)]
    if objective == 'rabin':
        # For Rabin(1) `Win /\ memory in range` is not an invariant that every conjunct of the property holds on:
        # a winning state paired with a persistence index it is never given (with two or more persistence
        # predicates) is no reachable product state. The obligations are therefore evaluated on the product
        # states reachable from the admitted initial states (exactly the behaviours the property speaks of).
        key = lambda p: tuple(sorted(p.items()))
        seen = {}
        todo = [p for p in P if truth(init_impl, p) and truth(env_i, p)]
        for p in todo:
            seen[key(p)] = p
        while todo:
            p = todo.pop()
            for x in X:
                for y in Y:
                    for m in M:
                        q = dict(x, **y, **m)
                        if key(q) not in seen and truth(impl, p, q) and truth(env_a, p, q):
                            seen[key(q)] = q
                            todo.append(q)
        inv = list(seen.values())
    found = []

    def want(name):
        return only is None or name in only
    if want('init'):
        for p in P:
            if truth(init_impl, p) and truth(env_i, p):
                if not (truth(z, p) and all(p[n] == mem_init[n] for n in mem)):
                    found.append(('init', f'initial state {p} is not winning with memory at its initial value'))
                    break
    succ = {}
    for i, p in enumerate(inv):
        outs = []
        for x in X:
            for y in Y:
                for m in M:
                    q = dict(x, **y, **m)
                    if truth(impl, p, q):
                        outs.append(q)
        succ[i] = outs
    if want('safety'):
        for i, p in enumerate(inv):
            for q in succ[i]:
                if (plus_one or truth(env_a, p, q)) and not truth(sys_a, p, q):
                    found.append(('safety', f'step {p} -> {q} allowed by the implementation violates the component action'))
                    break
            else:
                continue
            break
    if want('closure'):
        for i, p in enumerate(inv):
            for q in succ[i]:
                if truth(env_a, p, q) and not (truth(z, q) and inrange(q)):
                    found.append(('closure', f'step {p} -> {q} leaves the winning region or the memory range'))
                    break
            else:
                continue
            break
    if want('nonblock') or want('nonblock-obliged'):
        for i, p in enumerate(inv):
            def has(x, ym):
                return truth(impl, p, dict(x, **ym))
            YM = [dict(y, **m) for y in Y for m in M]
            if moore:
                ok = any(all(has(x, ym) for x in X) for ym in YM)
            else:
                ok = all(any(has(x, ym) for ym in YM) for x in X)
            if not ok:
                envcan = any(truth(env_a, p, dict(x, **y)) for x in X for y in Y)
                kind = 'nonblock'
                extra = ''
                its = getattr(aut, '_verif_iterates', None)
                if objective == 'rabin' and its is not None and p.get('_hold') is not None:
                    zk_, yki_ = its
                    none_ = len(aut.win['<>[]'])
                    if p['_hold'] != none_:
                        lvl = next((k for k, zz in enumerate(zk_) if truth(zz, p)), None)
                        if lvl is not None and not truth(yki_[lvl][p['_hold']], p):
                            # the persistence index was picked at a higher level of the outer fixpoint and kept
                            # while the play entered a state of a lower level, where that index has no strategy
                            kind = 'nonblock-stale-hold'
                            extra = (f'; the state is first winning at outer iterate {lvl}, where persistence index '
                                     f'{p["_hold"]} has no cycle set containing it')
                found.append((kind, f'no step allowed at reachable winning state {p} '
                              f'(environment action satisfiable there: {envcan}){extra}'))
                break
    if want('moore-indep') and moore:
        for i, p in enumerate(inv):
            for y in Y:
                for m in M:
                    s = {truth(impl, p, dict(x, **y, **m)) for x in X}
                    if len(s) > 1:
                        found.append(('moore-indep', f'at {p} the choice {dict(y, **m)} depends on the next environment value'))
                        break
                else:
                    continue
                break
            else:
                continue
            break
    if want('liveness'):
        start = [i for i, p in enumerate(inv) if truth(init_impl, p) and truth(env_i, p)]
        idx = {tuple(sorted(p.items())): i for i, p in enumerate(inv)}
        edges = {}
        for i, p in enumerate(inv):
            edges[i] = [idx[tuple(sorted(q.items()))] for q in succ[i]
                        if truth(env_a, p, q) and tuple(sorted(q.items())) in idx]
        reach = set(start)
        todo = list(start)
        while todo:
            i = todo.pop()
            for j in edges[i]:
                if j not in reach:
                    reach.add(j)
                    todo.append(j)
        goals = [[truth(g, p) for p in inv] for g in aut.win['[]<>']]
        holds = [[truth(h, p) for p in inv] for h in aut.win['<>[]']]
        bad = _bad_cycle(reach, edges, goals, holds, objective)
        if bad is not None:
            found.append(('liveness', f'reachable cycle through {[inv[i] for i in bad[:4]]} violates the {objective} condition'))
    return found


def _sccs(nodes, edges):
    index = {}
    low = {}
    stack = []
    on = set()
    out = []
    counter = [0]
    import sys as _s
    _s.setrecursionlimit(100000)

    def strong(v):
        index[v] = low[v] = counter[0]
        counter[0] += 1
        stack.append(v)
        on.add(v)
        for w in edges[v]:
            if w not in nodes:
                continue
            if w not in index:
                strong(w)
                low[v] = min(low[v], low[w])
            elif w in on:
                low[v] = min(low[v], index[w])
        if low[v] == index[v]:
            comp = []
            while True:
                w = stack.pop()
                on.discard(w)
                comp.append(w)
                if w == v:
                    break
            out.append(comp)
    for v in nodes:
        if v not in index:
            strong(v)
    return out


def _bad_cycle(reach, edges, goals, holds, objective):
    def cyclic(comp):
        cs = set(comp)
        return len(comp) > 1 or any(w in cs for w in edges[comp[0]])
    if objective == 'streett':
        # violating cycle: avoids some goal and leaves every hold
        for g in goals:
            nodes = {i for i in reach if not g[i]}
            for comp in _sccs(nodes, edges):
                if cyclic(comp) and all(any(not h[i] for i in comp) for h in holds):
                    return comp
        return None
    # rabin: violating cycle avoids some goal, or leaves every hold
    for g in goals:
        nodes = {i for i in reach if not g[i]}
        for comp in _sccs(nodes, edges):
            if cyclic(comp):
                return comp
    for comp in _sccs(set(reach), edges):
        if cyclic(comp) and all(any(not h[i] for i in comp) for h in holds):
            return comp
    return None


# ---------------------------------------------------------------- family (z3)

def family_obligations(shape, moore, plus_one, objective, which=None, state_idx=None):
    import z3
    from vlib import bdd2smt, family
    t0 = time.time()
    aut, params = family.build(shape, moore, plus_one)
    z, mem, mem_init = construct(aut, objective)
    t_real = time.time() - t0
    impl, init_impl = aut.action['impl'], aut.init['impl']
    exp = bdd2smt.Exporter(aut.bdd)
    bits = exp.bits
    eA, eI = exp.export(impl), exp.export(init_impl)
    eE, eS = exp.export(aut.action['env']), exp.export(aut.action['sys'])
    eZ, eEI = exp.export(z), exp.export(aut.init['env'])
    env_names, sys_names = list(aut.varlist['env']), list(aut.varlist['sys'])
    sbits = family.state_bits(aut, env_names + sys_names)
    mbits = family.state_bits(aut, mem)
    xpb = [bits(b + "'") for b in family.state_bits(aut, env_names)]
    ypb = [bits(b + "'") for b in family.state_bits(aut, sys_names) + mbits]
    rng = mem_ranges(aut, objective)

    def inrange(primed):
        cs = []
        for n in mem:
            v = link.int_of(n, aut.vars[n], bits, primed)
            cs += [v >= rng[n][0], v <= rng[n][1]]
        return z3.And(cs)

    def primed(e):
        return z3.substitute(e, *[(bits(b), bits(b + "'")) for b in sbits + mbits])
    inv = z3.And(eZ, inrange(False))
    if objective == 'rabin' and (which is None or any(w in ('safety', 'closure', 'nonblock', 'moore-indep', 'range') for w in which)):
        # Win /\ ranges is not inductive enough for Rabin(1) with several persistence predicates (a winning state
        # paired with a persistence index it is never given): use the exact set of reachable product states
        cur_, nodes_, T_, R_, inst_ = _product(exp, eA, eE, eI, eEI, sbits, mbits)
        inv = z3.Or([z3.And([bits(b) == z3.BoolVal(v) for b, v in zip(cur_, p)] + [R_[p]]) for p in nodes_])
    mem0 = z3.And([link.int_of(n, aut.vars[n], bits) == mem_init[n] for n in mem])
    name0 = f'{objective}-impl {shape} moore={moore} plus_one={plus_one}'
    sample = dict(shape=shape, objective=objective, moore=moore, plus_one=plus_one,
                  constants=len(params), impl_bdd_nodes=len(impl), memory={n: aut.vars[n]['dom'] for n in mem},
                  construct_s=round(t_real, 2))
    out = []
    obligations = []
    obligations.append(('init', [eI, eEI, z3.Not(z3.And(eZ, mem0))]))
    hyp = [inv, eA] if plus_one else [inv, eA, eE]
    obligations.append(('safety', hyp + [z3.Not(eS)]))
    obligations.append(('closure', [inv, eA, eE, z3.Not(z3.And(primed(eZ), inrange(True)))]))
    if objective == 'rabin':
        obligations.append(('range', [inv, z3.Not(z3.And(eZ, inrange(False)))]))
    # finite expansion of the quantifiers over the next-state bits (quantifier-free query)
    def expand(bvars):
        return [list(zip(bvars, [z3.BoolVal(v) for v in vs]))
                for vs in itertools.product([False, True], repeat=len(bvars))]
    xsubs, ysubs = expand(xpb), expand(ypb)
    eAy = [z3.substitute(eA, *ys) if ys else eA for ys in ysubs]
    if moore:
        nb = z3.Or([z3.And([z3.substitute(ey, *xs) if xs else ey for xs in xsubs]) for ey in eAy])
    else:
        nb = z3.And([z3.Or([z3.substitute(ey, *xs) if xs else ey for ey in eAy]) for xs in xsubs])
    obligations.append(('nonblock', [inv, z3.Not(nb)]))
    if moore:
        for b in xpb:
            obligations.append((f'moore-indep[{b}]', [
                inv, z3.substitute(eA, (b, z3.BoolVal(True))) != z3.substitute(eA, (b, z3.BoolVal(False)))]))
    # vacuity: some member has a winning state with an allowed step
    sol = z3.Solver()
    sol.add(inv, eA, eE, z3.Or([z3.Not(eZ_s) for eZ_s in [z3.substitute(eZ, *[(bits(b), z3.BoolVal(v)) for b, v in zip(sbits, s)])
                                                       for s in itertools.product([False, True], repeat=len(sbits))]]))
    nontrivial = str(sol.check()) == 'sat'
    states = list(itertools.product([False, True], repeat=len(sbits)))
    for name, fs in obligations:
        if which and not any(name.startswith(w) for w in which):
            continue
        if state_idx is None or name == 'init':
            out.append(_decide(name0, name, fs, shape, moore, plus_one, objective, params, bits, sample, nontrivial, aut.vars))
            continue
        for si in state_idx:
            at = [bits(b) == z3.BoolVal(v) for b, v in zip(sbits, states[si])]
            out.append(_decide(name0, f'{name}@state{si}', fs + at, shape, moore, plus_one, objective, params,
                               bits, sample, nontrivial, aut.vars))
    if which is None or 'liveness' in which:
        out.append(_liveness(name0, aut, exp, eA, eE, eI, eEI, sbits, mbits, objective, shape, moore,
                             plus_one, params, sample, nontrivial))
    if which is None or 'pointwise' in which:
        out.extend(_pointwise(aut, params, shape, moore, plus_one, objective, name0))
    return out


def _product(exp, eA, eE, eI, eEI, sbits, mbits):
    """Explicit product states (state x memory) with edges / initial set / reachability symbolic in the constants."""
    import z3
    bits = exp.bits
    cur = sbits + mbits
    nodes = list(itertools.product([False, True], repeat=len(cur)))
    eT = z3.And(eA, eE)
    eInit = z3.And(eI, eEI)

    def inst(e, p, q=None):
        sub = [(bits(b), z3.BoolVal(v)) for b, v in zip(cur, p)]
        if q is not None:
            sub += [(bits(b + "'"), z3.BoolVal(v)) for b, v in zip(cur, q)]
        return z3.simplify(z3.substitute(e, *sub))
    Tp = {p: inst(eT, p) for p in nodes}
    T = {}
    for p in nodes:
        for q in nodes:
            T[p, q] = z3.simplify(z3.substitute(Tp[p], *[(bits(b + "'"), z3.BoolVal(v)) for b, v in zip(cur, q)]))
    init = {p: inst(eInit, p) for p in nodes}
    N = len(nodes)
    R = dict(init)
    for _ in range(N):
        R = {q: z3.Or([R[q]] + [z3.And(R[p], T[p, q]) for p in nodes]) for q in nodes}
    return cur, nodes, T, R, inst


def _decide(name0, name, fs, shape, moore, plus_one, objective, params, bits, sample, nontrivial, table=None):
    import z3
    from vlib import family
    sol = z3.Solver()
    sol.set('timeout', SOLVER_MS)
    sol.add(*fs)
    t1 = time.time()
    r = str(sol.check())
    dt = time.time() - t1
    full = f'{name0} {name}'
    funcs = FUNCS[objective]
    if r == 'unsat':
        return core.res(full, 'holds', queries={r: 1}, solver_s=dt, sample=sample, nontrivial=nontrivial, functions=funcs)
    if r != 'sat':
        return core.res(full, 'inconclusive', queries={r: 1}, solver_s=dt, sample=sample, detail=f'solver answered {r}')
    vals = family.model_params(sol.model(), params, bits, table)
    return _replay_result(full, name, shape, moore, plus_one, objective, vals, params, r, dt, sample)


def _replay_result(full, name, shape, moore, plus_one, objective, vals, params, r, dt, sample):
    base = name.split('[')[0].split('@')[0]
    found = replay_member(shape, moore, plus_one, objective, vals, only=[base])
    hit = [f for f in found if f[0] == base or f[0].startswith(base + '-')]
    from vlib.props.c01 import _describe
    desc = _describe(vals, params)
    if hit:
        mode = f'{"moore" if moore else "mealy"}:{"plus_one" if plus_one else "stepwise"}'
        return core.res(full, 'violation', queries={r: 1}, solver_s=dt, sample=sample, nontrivial=True,
                        functions=FUNCS[objective], signature=(f'{objective}-impl:{hit[0][0]}' if hit[0][0] != base
                                                               else f'{objective}-impl:{base}:{mode}'),
                        detail=f'member {desc} of {shape} ({mode}): {hit[0][1]}',
                        cex=dict(shape=shape, moore=moore, plus_one=plus_one, objective=objective,
                                 values=vals, obligation=base))
    return core.res(full, 'inconclusive', queries={r: 1}, solver_s=dt, sample=sample,
                    detail=f'family counterexample for {name} (member {desc}) did not reproduce on the member '
                           'constructed on its own')


def replay_member(shape, moore, plus_one, objective, values, only=None):
    """Member constructed on its own by the real code, obligations by enumeration."""
    from vlib import family
    from vlib.props import c01
    aut, params = family.build(shape, moore, plus_one)
    c01.concrete_member(aut, {p: values[p] for p in params})
    try:
        z, mem, mem_init = construct(aut, objective)
    except AssertionError:
        return []   # construction refused for this member: nothing to check
    return check_concrete(aut, z, objective, mem, mem_init, only=only)


def _liveness(name0, aut, exp, eA, eE, eI, eEI, sbits, mbits, objective, shape, moore, plus_one,
              params, sample, nontrivial):
    import z3
    from vlib import family
    bits = exp.bits
    cur = sbits + mbits
    nodes = list(itertools.product([False, True], repeat=len(cur)))
    t0 = time.time()
    eT = z3.And(eA, eE)
    eInit = z3.And(eI, eEI)

    def inst(e, p, q=None):
        sub = [(bits(b), z3.BoolVal(v)) for b, v in zip(cur, p)]
        if q is not None:
            sub += [(bits(b + "'"), z3.BoolVal(v)) for b, v in zip(cur, q)]
        return z3.simplify(z3.substitute(e, *sub))
    Tp = {p: inst(eT, p) for p in nodes}
    T = {}
    for p in nodes:
        for q in nodes:
            T[p, q] = z3.simplify(z3.substitute(Tp[p], *[(bits(b + "'"), z3.BoolVal(v)) for b, v in zip(cur, q)]))
    init = {p: inst(eInit, p) for p in nodes}
    goals = [{p: inst(exp.export(g), p) for p in nodes} for g in aut.win['[]<>']]
    holds = [{p: inst(exp.export(h), p) for p in nodes} for h in aut.win['<>[]']]
    N = len(nodes)
    R = dict(init)
    for _ in range(N):
        R = {q: z3.Or([R[q]] + [z3.And(R[p], T[p, q]) for p in nodes]) for q in nodes}

    def EX(C):
        return {p: z3.Or([z3.And(T[p, q], C[q]) for q in nodes]) for p in nodes}

    def EU(C, F):
        Y = {p: z3.And(C[p], F[p]) for p in nodes}
        for _ in range(N):
            e = EX(Y)
            Y = {p: z3.Or(Y[p], z3.And(C[p], e[p])) for p in nodes}
        return Y

    def fair_cycle(C0, fair):
        C = dict(C0)
        for _ in range(N):
            new = dict(C)
            if fair:
                for F in fair:
                    e = EX(EU(C, F))
                    new = {p: z3.And(new[p], e[p]) for p in nodes}
            else:
                e = EX(C)
                new = {p: z3.And(new[p], e[p]) for p in nodes}
            C = new
        return z3.Or([C[p] for p in nodes])
    notholds = [{p: z3.Not(h[p]) for p in nodes} for h in holds]
    viol = []
    if objective == 'streett':
        for g in goals:
            viol.append(fair_cycle({p: z3.And(R[p], z3.Not(g[p])) for p in nodes}, notholds))
    else:
        for g in goals:
            viol.append(fair_cycle({p: z3.And(R[p], z3.Not(g[p])) for p in nodes}, []))
        viol.append(fair_cycle(R, notholds))
    t_build = time.time() - t0
    # vacuity: some member has a reachable cycle at all
    sol = z3.Solver()
    sol.set('timeout', SOLVER_MS)
    sol.add(fair_cycle(R, []))
    has_cycle = str(sol.check()) == 'sat'
    sol = z3.Solver()
    sol.set('timeout', SOLVER_MS)
    sol.add(z3.Or(viol))
    t1 = time.time()
    r = str(sol.check())
    dt = time.time() - t1
    full = f'{name0} liveness'
    s2 = dict(sample, product_states=N, liveness_build_s=round(t_build, 1), some_member_has_reachable_cycle=has_cycle)
    if r == 'unsat':
        if not has_cycle:
            return core.res(full, 'inconclusive', queries={r: 1}, solver_s=dt, sample=s2,
                            detail='vacuous: no member has a reachable cycle')
        return core.res(full, 'holds', queries={r: 1, 'witness:sat': 1}, solver_s=dt, sample=s2,
                        nontrivial=True, functions=FUNCS[objective],
                        extra=dict(states=N, transitions=N * N))
    if r != 'sat':
        return core.res(full, 'inconclusive', queries={r: 1}, solver_s=dt, sample=s2, detail=f'solver answered {r}')
    vals = family.model_params(sol.model(), params, bits, aut.vars)
    return _replay_result(full, 'liveness', shape, moore, plus_one, objective, vals, params, r, dt, s2)


def _pointwise(aut, params, shape, moore, plus_one, objective, name0, k=3):
    """Harness self-check (DESIGN.md 2.4): the family implementation restricted to
    a member equals the member's own implementation (same manager, BDD equality)."""
    import random
    from vlib import family
    from vlib.props import c01
    rnd = random.Random(hash((shape, moore, plus_one, objective)) & 0xffff)
    impl_f, init_f = aut.action['impl'], aut.init['impl']
    out = []
    for i in range(k):
        vals = {}
        for p in params:
            d = aut.vars[p]
            if d['type'] == 'bool':
                vals[p] = rnd.random() < 0.6
            else:
                vals[p] = rnd.randint(*d['dom'])
        a2, _ = family.build(shape, moore, plus_one)
        c01.concrete_member(a2, vals)
        try:
            construct(a2, objective)
        except AssertionError:
            continue
        fam_impl = aut.let(vals, impl_f)
        # different managers: compare through truth of exported terms is overkill; copy instead
        same = a2.bdd.copy(a2.action['impl'], aut.bdd) == fam_impl
        same_init = a2.bdd.copy(a2.init['impl'], aut.bdd) == aut.let(vals, init_f)
        full = f'{name0} pointwise[{i}]'
        if same and same_init:
            out.append(core.res(full, 'holds', sample=dict(kind='family-restricted-to-member equals member', member=i),
                                nontrivial=fam_impl != aut.false and fam_impl != aut.true))
        else:
            out.append(core.res(full, 'inconclusive',
                                detail='family implementation restricted to a member differs from the member\'s own '
                                       'implementation: the pointwise argument of DESIGN.md 2.4 fails for this code'))
    return out


FUNCS = {
    'streett': ['gr1.make_streett_transducer', 'gr1._controllable_action', 'gr1._make_init', 'gr1.is_realizable',
                'symbolic._assert_support_moore', 'gr1.solve_streett_game', 'fixpoint.step', 'fixpoint.trap'],
    'rabin': ['gr1.make_rabin_transducer', 'gr1._controllable_action', 'gr1._make_init', 'gr1.is_realizable',
              'symbolic._assert_support_moore', 'gr1.solve_rabin_game', 'gr1._cycle_inside',
              'gr1._attractor_inside', 'fixpoint.step'],
}


def member_instances(shape, moore, plus_one, objective, seeds):
    """Per-member construction by the real code, all obligations by enumeration (no family, no z3): covers what a
    family run cannot show (loop termination of the solver whose iterates feed the constructor) and shapes with
    more goals than the family tier affords."""
    import random
    from vlib import family
    from vlib.props.c01 import _describe
    out = []
    for seed in seeds:
        rnd = random.Random(seed)
        aut, params = family.build(shape, moore, plus_one)
        vals = family.random_member(aut, params, rnd)
        name = f'{objective}-impl member {shape}#{seed} moore={moore} plus_one={plus_one}'
        sample = dict(shape=shape, member=_describe(vals, params), moore=moore, plus_one=plus_one, objective=objective)
        try:
            found = replay_member(shape, moore, plus_one, objective, vals)
        except Exception as e:  # noqa
            import traceback
            where = traceback.extract_tb(e.__traceback__)[-1]
            found = [('construct', f'raised {type(e).__name__} at {where.name}:{where.lineno}: {str(e)[:80]}')]
        if found:
            ob, why = found[0]
            mode = f'{"moore" if moore else "mealy"}:{"plus_one" if plus_one else "stepwise"}'
            out.append(core.res(name, 'violation', sample=sample, nontrivial=True, functions=FUNCS[objective],
                                signature=(f'{objective}-impl:{ob}' if ob == 'nonblock-stale-hold' else f'{objective}-impl:{ob}:{mode}'),
                                detail=f'member {_describe(vals, params)} of {shape} ({mode}): {why}',
                                cex=dict(shape=shape, moore=moore, plus_one=plus_one, objective=objective, values=vals, obligation=ob)))
        else:
            out.append(core.res(name, 'holds', sample=sample, nontrivial=True, functions=FUNCS[objective]))
    return out


def game_instances(objective, seeds):
    """Closed-loop obligations by enumeration on seeded *integer* games and table members with all four qinit forms
    and environment initial conditions other than the winning region (instance set of C12)."""
    import contextlib
    import io
    from vlib.props import c12
    out = []
    for seed in seeds:
        c = c12.make_case(seed)
        if c['kind'] == 'hand':
            continue
        c['objective'] = objective
        with contextlib.redirect_stdout(io.StringIO()):
            aut, desc = c12.build_case(c)
        if aut is None:
            continue
        name = f'{objective}-impl game #{seed} {c["kind"]} qinit={c["qinit"]} moore={c["moore"]} plus_one={c["plus_one"]}'
        sample = dict(case=c, game=desc)
        if objective == 'streett':
            mem, mem_init = ['_goal'], {'_goal': 0}
        else:
            mem, mem_init = ['_hold', '_goal'], {'_hold': len(aut.win['<>[]']), '_goal': 0}
        found = check_concrete(aut, aut._verif_z, objective, mem, mem_init)
        if found:
            ob, why = found[0]
            out.append(core.res(name, 'violation', sample=sample, nontrivial=True, functions=FUNCS[objective],
                                signature=(f'{objective}-impl:{ob}' if ob == 'nonblock-stale-hold' else f'{objective}-impl:{ob}:game'),
                                detail=f'{desc}: {ob}: {why}', cex=dict(kind='game', seed=seed, objective=objective)))
        else:
            out.append(core.res(name, 'holds', sample=sample, nontrivial=True, functions=FUNCS[objective]))
    return out
