"""Explicit-state references with symbolic tables (bounded unrolling).

Everything is written over an abstract Boolean algebra so that the same
definitions run on z3 terms (table constants symbolic: all games of a family
at once) and on Python bools (one concrete game; used for replay and for
validation against `xplay` and the repository's expected test results).

Game:
  X, Y     lists of env / sys valuations (tuples); state s = x + y
  env(s, xp, yp), sys(s, xp, yp) -> algebra value
  moore, plus_one
Unrolling: every Kleene loop runs `len(S) + 1` times (lattice height + 1).
"""
import itertools


class PyAlg:
    true = True
    false = False

    @staticmethod
    def and_(xs):
        return all(xs)

    @staticmethod
    def or_(xs):
        return any(xs)

    @staticmethod
    def not_(x):
        return not x

    @staticmethod
    def implies(a, b):
        return (not a) or b


class Z3Alg:
    def __init__(self):
        import z3
        self.z3 = z3
        self.true = z3.BoolVal(True)
        self.false = z3.BoolVal(False)

    def and_(self, xs):
        z3 = self.z3
        xs = [x for x in xs if not z3.is_true(x)]
        if any(z3.is_false(x) for x in xs):
            return self.false
        if not xs:
            return self.true
        return xs[0] if len(xs) == 1 else z3.And(xs)

    def or_(self, xs):
        z3 = self.z3
        xs = [x for x in xs if not z3.is_false(x)]
        if any(z3.is_true(x) for x in xs):
            return self.true
        if not xs:
            return self.false
        return xs[0] if len(xs) == 1 else z3.Or(xs)

    def not_(self, x):
        z3 = self.z3
        if z3.is_true(x):
            return self.false
        if z3.is_false(x):
            return self.true
        return z3.Not(x)

    def implies(self, a, b):
        return self.or_([self.not_(a), b])


class Game:
    def __init__(self, alg, X, Y, env, sys, moore, plus_one):
        self.A = alg
        self.X = list(X)
        self.Y = list(Y)
        self.S = [x + y for x in self.X for y in self.Y]
        self.N = len(self.S)
        self.env = env
        self.sys = sys
        self.moore = moore
        self.plus_one = plus_one
        self._e = {}
        self._s = {}
        for s in self.S:
            for xp in self.X:
                for yp in self.Y:
                    self._e[s, xp, yp] = env(s, xp, yp)
                    self._s[s, xp, yp] = sys(s, xp, yp)

    def const(self, v):
        return {s: (self.A.true if v else self.A.false) for s in self.S}

    # ---- one step
    def cpre(self, Z):
        A = self.A
        r = {}
        for s in self.S:
            def body(xp, yp):
                t = Z[xp + yp]
                e = self._e[s, xp, yp]
                c = self._s[s, xp, yp]
                if self.plus_one:
                    return A.and_([c, A.implies(e, t)])
                return A.implies(e, A.and_([c, t]))
            if self.moore:
                r[s] = A.or_([A.and_([body(xp, yp) for xp in self.X]) for yp in self.Y])
            else:
                r[s] = A.and_([A.or_([body(xp, yp) for yp in self.Y]) for xp in self.X])
        return r

    def pw(self, f, *sets):
        return {s: f([u[s] for u in sets]) for s in self.S}

    # ---- fixpoints of fixpoint.py
    def attractor(self, target, inside=None, n=None):
        A = self.A
        q = dict(target)
        for _ in range((n or self.N) + 2):
            pre = self.cpre(q)
            q = self.pw(A.or_, q, pre)
            if inside is not None:
                q = self.pw(A.and_, q, inside)
        return q

    def trap(self, safe, unless=None, n=None):
        A = self.A
        q = self.const(True)
        for _ in range((n or self.N) + 2):
            pre = self.cpre(q)
            q = self.pw(A.and_, safe, pre)
            if unless is not None:
                q = self.pw(A.or_, q, unless)
        return q

    # ---- GR(1)
    def streett(self, goals, holds, n=None):
        """nu Z. /\\_j mu Y. \\/_k nu X.
              (g_j /\\ cpre Z) \\/ cpre Y \\/ (h_k /\\ cpre X)"""
        A = self.A
        n = (n or self.N) + 2
        Z = self.const(True)
        for _ in range(n):
            cz = self.cpre(Z)
            Znew = Z
            for g in goals:
                gz = self.pw(A.and_, g, cz)
                Y = self.const(False)
                for _ in range(n):
                    cy = self.cpre(Y)
                    base = self.pw(A.or_, gz, cy)
                    Ynew = Y
                    for h in holds:
                        Xs = self.const(True)
                        for _ in range(n):
                            cx = self.cpre(Xs)
                            Xs = self.pw(A.or_, base, self.pw(A.and_, h, cx))
                        Ynew = self.pw(A.or_, Ynew, Xs)
                    Y = Ynew
                Znew = self.pw(A.and_, Znew, Y)
            Z = Znew
        return Z

    def rabin(self, goals, holds, n=None):
        """mu Z. \\/_k nu Y. /\\_j mu X.
              (cpre Z \\/ h_k) /\\ cpre Y /\\ (g_j \\/ cpre X)"""
        A = self.A
        n = (n or self.N) + 2
        Z = self.const(False)
        for _ in range(n):
            cz = self.cpre(Z)
            Znew = Z
            for h in holds:
                zh = self.pw(A.or_, cz, h)
                Y = self.const(True)
                for _ in range(n):
                    cy = self.cpre(Y)
                    inside = self.pw(A.and_, cy, zh)
                    Ynew = Y
                    for g in goals:
                        Xs = self.const(False)
                        for _ in range(n):
                            cx = self.cpre(Xs)
                            Xs = self.pw(A.and_, inside, self.pw(A.or_, g, cx))
                        Ynew = self.pw(A.and_, Ynew, Xs)
                    Y = Ynew
                Znew = self.pw(A.or_, Znew, Y)
            Z = Znew
        return Z

    # ---- images (closed systems: only the component's action, over full states)
    def ee_image(self, source):
        """{ t : exists s in source with sys(s, t) }"""
        A = self.A
        r = {}
        for t in self.S:
            xp, yp = t[:len(self.X[0])], t[len(self.X[0]):]
            r[t] = A.or_([A.and_([source[s], self._s[s, xp, yp]]) for s in self.S])
        return r

    def descendants(self, source, constrain, future=True, n=None):
        A = self.A
        q = self.ee_image(source) if future else dict(source)
        for _ in range((n or self.N) + 2):
            post = self.ee_image(q)
            q = self.pw(A.and_, self.pw(A.or_, q, post), constrain)
        return q


def valuations(nbits):
    return list(itertools.product([False, True], repeat=nbits))
