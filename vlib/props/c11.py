"""C11 — controllable predecessor, attractor, trap, image, descendants are exact.

Family level: actions and the two state predicates P, Q are rigid tables; the
real `fixpoint.*` function runs once per (family, mode); z3 proves the exported
result equal to the explicit reference for every member and state.
"""
import os
import time

from vlib import core
from vlib.props import c01

PID = 'C11'
FILES = ['omega/symbolic/fixpoint.py', 'omega/symbolic/prime.py']
FUNCS = ['fixpoint.step', 'fixpoint.attractor', 'fixpoint.trap', 'fixpoint.ee_image',
         'fixpoint.descendants', 'prime.prime', 'prime.unprime']
MODES = c01.MODES
SOLVER_MS = 600000 * int(os.environ.get('VERIF_Z3_SCALE', '1'))
OPS = ['step', 'attractor', 'attractor_inside', 'attractor_inside_any', 'trap', 'trap_unless', 'ee_image',
       'descendants_future', 'descendants_now']


def real_op(op, aut, P, Q):
    import omega.symbolic.fixpoint as fx
    ea, sa = aut.action['env'], aut.action['sys']
    if op == 'step':
        return fx.step(ea, sa, P, aut)
    if op == 'attractor':
        return fx.attractor(ea, sa, P, aut)
    if op == 'attractor_inside':
        return fx.attractor(ea, sa, P & Q, aut, inside=Q)
    if op == 'attractor_inside_any':
        return fx.attractor(ea, sa, P, aut, inside=Q)      # target not necessarily within `inside`
    if op == 'trap':
        return fx.trap(ea, sa, Q, aut)
    if op == 'trap_unless':
        return fx.trap(ea, sa, Q, aut, unless=P)
    if op == 'ee_image':
        return fx.ee_image(P, aut)
    if op == 'descendants_future':
        return fx.descendants(P, Q, aut, future=True)
    if op == 'descendants_now':
        return fx.descendants(P, Q, aut, future=False)
    raise ValueError(op)


def ref_op(op, game, P, Q):
    A = game.A
    if op == 'step':
        return game.cpre(P)
    if op == 'attractor':
        return game.attractor(P)
    if op == 'attractor_inside':
        return game.attractor(game.pw(A.and_, P, Q), inside=Q)
    if op == 'attractor_inside_any':
        # the recurrence of the code, q := (q \/ cpre q) /\ inside started at the target: after one round the
        # iterate is inside `inside`, i.e. it is the attractor, within `inside`, of (target \/ cpre target) /\ inside
        t1 = game.pw(A.and_, game.pw(A.or_, P, game.cpre(P)), Q)
        return game.attractor(t1, inside=Q)
    if op == 'trap':
        return game.trap(Q)
    if op == 'trap_unless':
        return game.trap(Q, unless=P)
    if op == 'ee_image':
        return game.ee_image(P)
    if op == 'descendants_future':
        return game.descendants(P, Q, future=True)
    if op == 'descendants_now':
        return game.descendants(P, Q, future=False)
    raise ValueError(op)


def _reown(aut, op):
    """History for the `@reowned` / `@grown` variants: run the operator once on the Automaton as built, then change the
    Automaton in place, refresh the primed lists the documented way, and only then run the operator that is checked.
    `@reowned`: every variable is re-assigned to the component. `@grown`: a further Boolean variable `zz` is declared,
    given to the component, and conjoined to the target (so the target mentions a variable that did not exist when
    the operator first ran)."""
    base, _, tag = op.partition('@')
    if tag:
        real_op(base, aut, aut.win['[]<>'][0], aut.win['<>[]'][0])
    if tag == 'reowned':
        aut.varlist['sys'] = list(aut.varlist['env']) + list(aut.varlist['sys'])
        aut.varlist['env'] = []
        aut.prime_varlists()
    elif tag == 'grown':
        aut.declare_variables(zz='bool')
        aut.varlist['sys'] = list(aut.varlist['sys']) + ['zz']
        aut.prime_varlists()
        aut.win['[]<>'] = [aut.win['[]<>'][0] & aut.add_expr('zz')] + list(aut.win['[]<>'][1:])
    return base


def replay_member(shape, moore, plus_one, op, values):
    """Real operator on one member vs explicit game solving / graph search. No z3."""
    from vlib import bdd2smt, family, xplay
    aut, params = family.build(shape, moore, plus_one)
    # the real operator runs on the family itself (rigid constants stay in the support, as in the failing run);
    # its result is then read at the member's constant values
    afam, _ = family.build(shape, moore, plus_one)
    full_op = op
    op = _reown(afam, full_op)
    rfam = real_op(op, afam, afam.win['[]<>'][0], afam.win['<>[]'][0])
    rfam = afam.let({p: values[p] for p in params if p in afam.support(rfam)}, rfam) if \
        set(params) & afam.support(rfam) else rfam
    c01.concrete_member(aut, {p: values[p] for p in params})
    _reown(aut, full_op)
    ex = family.Explicit(aut, bdd2smt.Exporter(aut.bdd))
    E, S, goals, holds, truth = c01.concrete_tables(aut, ex)
    P, Q = goals[0], holds[0]
    r = real_op(op, aut, aut.win['[]<>'][0], aut.win['<>[]'][0])
    e_ = lambda s, a, b: E[s, a, b]
    s_ = lambda s, a, b: S[s, a, b]
    F = {s: False for s in ex.S}
    notQ = {s: not Q[s] for s in ex.S}
    if op == 'step':
        # one step into P: reach P in exactly one move = reach/safe game on a copy
        from vlib import xref
        g = xref.Game(xref.PyAlg, ex.X, ex.Y, e_, s_, moore, plus_one)
        want = _one_step(ex, e_, s_, moore, plus_one, P)
    elif op == 'attractor':
        want = xplay.solve_reach_safe(ex.X, ex.Y, e_, s_, moore, plus_one, P, F, True)
    elif op == 'attractor_inside':
        PQ = {s: P[s] and Q[s] for s in ex.S}
        want = xplay.solve_reach_safe(ex.X, ex.Y, e_, s_, moore, plus_one, PQ, notQ, True)
    elif op == 'attractor_inside_any':
        one = _one_step(ex, e_, s_, moore, plus_one, P)
        T1 = {s: (P[s] or one[s]) and Q[s] for s in ex.S}
        want = xplay.solve_reach_safe(ex.X, ex.Y, e_, s_, moore, plus_one, T1, notQ, True)
    elif op == 'trap':
        want = xplay.solve_reach_safe(ex.X, ex.Y, e_, s_, moore, plus_one, F, notQ, False)
    elif op == 'trap_unless':
        want = xplay.solve_reach_safe(ex.X, ex.Y, e_, s_, moore, plus_one, P,
                                      {s: not Q[s] and not P[s] for s in ex.S}, False)
    else:
        nx = len(ex.xbits)
        succ = {s: [t for t in ex.S if S[s, t[:nx], t[nx:]]] for s in ex.S}
        img = lambda src: {t for s in src for t in succ[s]}
        src = {s for s in ex.S if P[s]}
        if op == 'ee_image':
            got_set = img(src)
        else:
            cur = img(src) if op == 'descendants_future' else set(src)
            # mirror of the documented loop: q := (q \/ image(q)) /\ constrain until stable
            while True:
                new = {t for t in (cur | img(cur)) if Q[t]}
                if new == cur:
                    break
                cur = new
            got_set = cur
        want = {s: (s in got_set) for s in ex.S}
    diffs = [(ex.state_values(s), truth(r, s), want[s]) for s in ex.S if truth(r, s) != want[s]]
    if not diffs:
        def truth_fam(s):
            d = {k: v for k, v in ex.state_values(s).items() if k in afam.support(rfam)}
            w = afam.let(d, rfam) if d else rfam
            return w == afam.true
        diffs = [(ex.state_values(s), truth_fam(s), want[s]) for s in ex.S if truth_fam(s) != want[s]]
    return diffs


def _one_step(ex, env, sys, moore, plus_one, P):
    """Brute force over the component's choice (function of x' if Mealy)."""
    out = {}
    for s in ex.S:
        def ok(xp, yp):
            e, c = env(s, xp, yp), sys(s, xp, yp)
            if plus_one:
                return c and ((not e) or P[xp + yp])
            return (not e) or (c and P[xp + yp])
        if moore:
            out[s] = any(all(ok(xp, yp) for xp in ex.X) for yp in ex.Y)
        else:
            out[s] = all(any(ok(xp, yp) for yp in ex.Y) for xp in ex.X)
    return out


def family_op(shape, moore, plus_one, ops):
    import z3
    from vlib import bdd2smt, family, xref
    out = []
    for op in ops:
        t0 = time.time()
        aut, params = family.build(shape, moore, plus_one)
        full_op = op
        op = _reown(aut, full_op)
        P = aut.win['[]<>'][0]
        Q = aut.win['<>[]'][0]
        r = real_op(op, aut, P, Q)
        t_real = time.time() - t0
        exp = bdd2smt.Exporter(aut.bdd)
        ex = family.Explicit(aut, exp)
        E = ex.action_table(aut.action['env'])
        S = ex.action_table(aut.action['sys'])
        Pt, Qt = ex.pred_table(P), ex.pred_table(Q)
        game = xref.Game(xref.Z3Alg(), ex.X, ex.Y, lambda s, a, b: E[s, a, b],
                         lambda s, a, b: S[s, a, b], moore, plus_one)
        ref = ref_op(op, game, Pt, Qt)
        rt = ex.pred_table(r)
        sample = dict(shape=shape, op=full_op, moore=moore, plus_one=plus_one, constants=len(params),
                      result_bdd_nodes=len(r), real_s=round(t_real, 2))
        sol = z3.Solver()
        sol.add(z3.Or([rt[s] for s in ex.S]), z3.Or([z3.Not(rt[s]) for s in ex.S]))
        nontrivial = str(sol.check()) == 'sat'
        extra = []
        if op == 'attractor_inside_any':
            # "remain in this set": no oracle needed
            extra.append(('within-inside', z3.Or([z3.And(rt[s], z3.Not(Qt[s])) for s in ex.S])))
        if op.startswith('descendants'):
            # closure facts, no oracle: inside the constraint, closed under constrained successors
            img = game.ee_image(rt)
            extra.append(('within-constraint', z3.Or([z3.And(rt[s], z3.Not(Qt[s])) for s in ex.S])))
            extra.append(('closed', z3.Or([z3.And(img[s], Qt[s], z3.Not(rt[s])) for s in ex.S])))
        queries = [(f'state={ex.state_values(s)}', rt[s] != ref[s]) for s in ex.S] + extra
        for label, f in queries:
            sol = z3.Solver()
            sol.set('timeout', SOLVER_MS)
            sol.add(f)
            t1 = time.time()
            res_ = str(sol.check())
            dt = time.time() - t1
            name = f'{full_op} {shape} moore={moore} plus_one={plus_one} {label}'
            if res_ == 'unsat':
                out.append(core.res(name, 'holds', queries={res_: 1}, solver_s=dt, sample=sample,
                                    nontrivial=nontrivial, functions=FUNCS))
            elif res_ == 'sat':
                vals = family.model_params(sol.model(), params, exp.bits, aut.vars)
                diffs = replay_member(shape, moore, plus_one, full_op, vals)
                if diffs:
                    out.append(core.res(
                        name, 'violation', queries={res_: 1}, solver_s=dt, sample=sample, nontrivial=True,
                        functions=FUNCS, signature=f'{op}:{"moore" if moore else "mealy"}:'
                        f'{"plus_one" if plus_one else "stepwise"}',
                        detail=f'member {c01._describe(vals, params)} of {shape}: {op} at {diffs[0][0]} '
                               f'returns {diffs[0][1]}, explicit computation gives {diffs[0][2]}',
                        cex=dict(shape=shape, moore=moore, plus_one=plus_one, op=full_op, values=vals)))
                else:
                    out.append(core.res(name, 'inconclusive', queries={res_: 1}, solver_s=dt, sample=sample,
                                        detail='counterexample did not reproduce on the member'))
            else:
                out.append(core.res(name, 'inconclusive', queries={res_: 1}, solver_s=dt, sample=sample,
                                    detail=f'solver answered {res_}'))
    return out


def member_instances(shape, moore, plus_one, ops, seeds):
    """Per-member runs of the operators that iterate to a fixpoint: loop termination is decided on the whole
    family BDD in a family run, so a loop that stops too early for one member only shows on that member."""
    import random
    from vlib import family
    out = []
    for seed in seeds:
        rnd = random.Random(seed)
        aut, params = family.build(shape, moore, plus_one)
        vals = family.random_member(aut, params, rnd)
        for op in ops:
            name = f'{op} member {shape}#{seed} moore={moore} plus_one={plus_one}'
            sample = dict(shape=shape, op=op, member=c01._describe(vals, params), moore=moore, plus_one=plus_one)
            try:
                diffs = replay_member(shape, moore, plus_one, op, vals)
            except Exception as e:  # noqa
                diffs = [('-', f'raised {type(e).__name__}: {e}', '-')]
            if diffs:
                out.append(core.res(name, 'violation', sample=sample, nontrivial=True, functions=FUNCS,
                                    signature=f'{op}:member', detail=f'member {c01._describe(vals, params)} of {shape}: {op} at '
                                    f'{diffs[0][0]} returns {diffs[0][1]}, explicit computation gives {diffs[0][2]}',
                                    cex=dict(shape=shape, moore=moore, plus_one=plus_one, op=op, values=vals)))
            else:
                out.append(core.res(name, 'holds', sample=sample, nontrivial=True, functions=FUNCS))
    return out


def replay(payload):
    c = payload['cex']
    d = replay_member(c['shape'], c['moore'], c['plus_one'], c['op'], c['values'])
    return bool(d), f'{c["op"]} on member of {c["shape"]}: {d[:2]}'


def run(tier, seed, t0, only=None):
    ONE = ['step', 'ee_image']
    if tier == 'quick':
        shapes = [('B11b', 'cudd', OPS), ('B02', 'cudd', OPS), ('S11', 'autoref', OPS),
                  ('B21', 'cudd', ONE), ('B12', 'cudd', ONE), ('I11a', 'cudd', ONE), ('I11n', 'cudd', ONE)]
    else:
        shapes = [('B11b', 'cudd', OPS), ('B02', 'cudd', OPS), ('S11', 'autoref', OPS), ('B02', 'autoref', OPS),
                  ('S11h2', 'cudd', OPS), ('T11b', 'cudd', OPS), ('B21', 'cudd', ONE), ('B12', 'cudd', ONE), ('I11a', 'cudd', ONE),
                  ('I11n', 'cudd', ONE), ('I11b', 'cudd', ONE), ('S21', 'cudd', ONE), ('S12', 'cudd', ONE)]
    tasks = []
    for shape, be, ops in shapes:
        for moore, plus_one in MODES:
            for op in ops:
                if op in ('ee_image', 'descendants_future', 'descendants_now') and (moore, plus_one) != (True, True):
                    continue   # independent of the mode
                tasks.append(dict(mod='vlib.props.c11', fn='family_op',
                                  kw=dict(shape=shape, moore=moore, plus_one=plus_one, ops=[op]),
                                  backend=be, timeout=300 if tier == 'quick' else 3000,
                                  name=f'{be}:{op}:{shape}:moore={moore}:plus_one={plus_one}'))
    # history: the same Automaton after every variable was re-assigned to the component in place
    for shape, be in (('S11', 'cudd'), ('B11b', 'cudd')):
        for moore, plus_one in MODES:
            for op in ('step@reowned', 'attractor@reowned', 'trap@reowned') + (('step@grown',) if shape == 'S11' else ()):
                tasks.append(dict(mod='vlib.props.c11', fn='family_op',
                                  kw=dict(shape=shape, moore=moore, plus_one=plus_one, ops=[op]),
                                  backend=be, timeout=300 if tier == 'quick' else 3000,
                                  name=f'{be}:{op}:{shape}:moore={moore}:plus_one={plus_one}'))
    loops = [o for o in OPS if o not in ('step', 'ee_image')]
    nmem = 24 if tier == 'quick' else 400
    for shape in ('B11b', 'B02', 'S11'):
        for moore, plus_one in MODES:
            sds = [seed * 100000 + i for i in range(nmem)]
            for i in range(0, nmem, 24):
                tasks.append(dict(mod='vlib.props.c11', fn='member_instances',
                                  kw=dict(shape=shape, moore=moore, plus_one=plus_one, ops=loops, seeds=sds[i:i + 24]),
                                  timeout=3000, name=f'cudd:members:{shape}:moore={moore}:plus_one={plus_one}[{i}]'))
    tasks.append(dict(mod='vlib.props.c01', fn='validate_reference', kw=dict(seed=seed * 100 + 11, n=10 if tier == 'quick' else 100),
                      timeout=3000, name='xref-validation'))
    if only:
        tasks = [t for t in tasks if only in t['name']]
    results = core.run_tasks(tasks)
    return core.finish(
        PID, tier, seed, 'model_checking', results, t0, files=FILES,
        bounds=dict(families=[f'{s}@{b}:{len(o)} operators' for s, b, o in shapes], modes=4, operators=OPS,
                    unrolling='|states|+2', solver_timeout_ms=SOLVER_MS),
        rule='one obligation per (operator, family, mode, state): exists tables (both actions, target/safe and '
             'inside/unless/constrain predicates) such that the exported result differs from the explicit reference; '
             'plus closure facts of descendants without oracle. Non-trivial = some member has a non-empty, '
             'non-full result',
        assumptions=['z3', 'dd node accessors', 'family run pointwise (DESIGN.md 2.4)',
                     'attractor with `inside`: result within `inside` for any target; for targets not within `inside` the reference is the recurrence q := (q \\/ cpre q) /\\ inside started at the target',
                     'reference validated against reachability/safety games solved explicitly'],
        outside=['more than 3 state bits', 'fixpoint.preimage (thin wrapper of dd.bdd.preimage)'])
