import time, z3
import omega.symbolic.fol as _fol
import dd.autoref, dd.cudd

def export(u, bdd, cache, bitvar):
    """BDD node -> z3 Bool (DAG walk with complemented edges)."""
    def rec(v):
        # v: Function. returns z3 term of v
        if v == bdd.true: return z3.BoolVal(True)
        if v == bdd.false: return z3.BoolVal(False)
        neg = v.negated
        r = ~v if neg else v   # regular node
        key = int(r)
        if key not in cache:
            lo, hi = r.low, r.high
            cache[key] = z3.If(bitvar(r.var), rec(hi), rec(lo))
        t = cache[key]
        return z3.Not(t) if neg else t
    return rec(u)

def main():
  for mod in (dd.cudd, dd.autoref):
      ctx = _fol.Context()
      ctx.bdd = mod.BDD()
      ctx.declare(x=(0, 6), y=(-3, 4), z='bool')
      u = ctx.add_expr(r'(x + y <= 3) /\ (z \/ (x * y > 2))')
      bits = {}
      bv = lambda n: bits.setdefault(n, z3.Bool(n))
      t0 = time.time()
      e = export(u, ctx.bdd, {}, bv)
      print(mod.__name__, len(u), sorted(bits), time.time() - t0)
      # link ints
      X, Y = z3.Ints('X Y'); Z = bits.get('z', z3.Bool('z'))
      def val(name, X):
          d = ctx.vars[name]; w = d['width']; bn = d['bitnames']
          s = z3.Sum([z3.If(bv(b), 2**i, 0) for i, b in enumerate(bn)])
          if d['signed']:
              s = z3.Sum([z3.If(bv(b), 2**i, 0) for i, b in enumerate(bn[:-1])]) - z3.If(bv(bn[-1]), 2**(w-1), 0)
          elif d['dom'][0] < 0:
              s = s - 2**w
          return X == s
      s = z3.Solver()
      s.add(val('x', X), val('y', Y))
      ref = z3.And(X + Y <= 3, z3.Or(Z, X * Y > 2))
      s.add(e != ref)
      t0 = time.time()
      print(s.check(), time.time() - t0)
if __name__ == "__main__":
    main()
