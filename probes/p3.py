import time, itertools, sys
import omega.symbolic.temporal as trl
import omega.games.gr1 as gr1

def B(v): return 'TRUE' if v else 'FALSE'
def table_expr(prefix, names):
    """Disjunction over all valuations of `names` of (cell /\ param)."""
    terms = []; params = []
    for vals in itertools.product([0, 1], repeat=len(names)):
        p = prefix + ''.join(map(str, vals))
        params.append(p)
        cell = ' /\\ '.join(f'({n} <=> {B(v)})' for n, v in zip(names, vals))
        terms.append(f'({cell} /\\ {p})')
    return ' \\/ '.join(terms), params

def build(moore, plus_one, n_goals=1, n_holds=1, envfull=True):
    aut = trl.Automaton()
    aut.declare_variables(x='bool', y='bool')
    aut.varlist = dict(env=['x'], sys=['y'])
    allp = []
    e_expr, p = table_expr('e', ['x','y',"x'","y'"] if envfull else ['x','y',"x'"]); allp += p
    s_expr, p = table_expr('s', ['x','y',"x'","y'"]); allp += p
    gs = []; hs = []
    for j in range(n_goals):
        g, p = table_expr(f'g{j}_', ['x','y']); allp += p; gs.append(g)
    for k in range(n_holds):
        h, p = table_expr(f'h{k}_', ['x','y']); allp += p; hs.append(h)
    aut.declare_constants(**{p: 'bool' for p in allp})
    aut.init['env'] = 'TRUE'; aut.init['sys'] = 'TRUE'
    aut.action['env'] = e_expr; aut.action['sys'] = s_expr
    aut.win['[]<>'] = aut.bdds_from(*gs); aut.win['<>[]'] = aut.bdds_from(*hs)
    aut.moore = moore; aut.plus_one = plus_one; aut.qinit = r'\A \A'
    aut.prime_varlists()
    return aut, allp

def main():
    for moore, plus_one in itertools.product([True, False], repeat=2):
        aut, allp = build(moore, plus_one, int(sys.argv[1]), int(sys.argv[2]), envfull=(sys.argv[3]=='1'))
        t0 = time.time()
        z, yij, xijk = gr1.solve_streett_game(aut)
        print('moore', moore, 'plus_one', plus_one, 'params', len(allp), 'nodes', len(z), f'{time.time()-t0:.1f}s', 'bddsize', len(aut.bdd), flush=True)
if __name__ == "__main__":
    main()
